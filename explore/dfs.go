package explore

import (
	"fmt"
	"os"
	"strings"
	"time"

	"verif/vs"
)

// Instance is one fresh instantiation of a scenario: Run is the root
// goroutine, Check is the oracle evaluated on the terminal state (it may read
// everything Run's goroutines recorded), Outcome summarises what the oracle
// looked at (vacuity statistics: distinct outcomes).
type Instance struct {
	Run     func()
	Check   func(r *vs.Result) []string
	Outcome func() string
	// Counters reports harness-level counts of this execution (summed over all executions in the evidence).
	Counters func() map[string]int64
}

// Scenario is a closed system to explore.
type Scenario struct {
	Name  string
	Cfg   vs.Config
	New   func() Instance
	Mode  string // "S1" (all interleavings, state caching) or "S2" (deviation bounded, state caching per budget)
	Bound int    // S2: maximal number of deviations
}

// Options of one exploration.
type Options struct {
	Mode      string
	Bound     int
	Deadline  time.Time
	MaxExec   int64
	Shard     int
	NShards   int
	StopFirst bool
	MaxViol   int
	Table     *Table // shared visited set (nil: private)
	TableBits uint
}

// Violation is one failing execution.
type Violation struct {
	Scenario   string   `json:"scenario"`
	Choices    []int    `json:"choices"`
	Deviations int      `json:"deviations"`
	Messages   []string `json:"messages"`
	Signature  string   `json:"signature"`
	Trace      []string `json:"trace,omitempty"`
}

// Stats of one exploration (mergeable across shards).
type Stats struct {
	Scenario       string           `json:"scenario"`
	Mode           string           `json:"mode"`
	Bound          int              `json:"bound"`
	Executions     int64            `json:"executions"`
	Pruned         int64            `json:"pruned"`
	States         int64            `json:"states"`
	Transitions    int64            `json:"transitions"`
	MaxDepth       int              `json:"max_depth"`
	Outcomes       map[string]int64 `json:"-"`
	Complete       bool             `json:"complete"`
	CapHit         string           `json:"cap_hit,omitempty"`
	StepLimitHits  int64            `json:"step_limit_hits"`
	Violations     []Violation      `json:"violations,omitempty"`
	ViolationCount int64            `json:"violation_count"`
	WallS          float64          `json:"wall_s"`
	MaxGoroutines  int              `json:"max_goroutines"`
	Counters       map[string]int64 `json:"counters,omitempty"`
}

type frame struct {
	n      int // number of enabled transitions
	chosen int // index taken
	def    int // default index
	devs   int // deviations used before this frame
	// successor keys of the alternatives not yet tried, in the order they will be tried
	alts []alt
}

type alt struct {
	idx    int
	key    vs.H
	budget int
}

type dfs struct {
	sc         Scenario
	opt        Options
	stack      []frame
	depth      int // position in stack during an execution
	table      *Table
	st         *Stats
	replayOnly bool
	cut        int // enumeration mode: stop at this many branching frames and record the prefix as a work item
	items      [][]int
}

var dumpF = func() *os.File {
	if p := os.Getenv("VS_DUMP"); p != "" {
		f, _ := os.OpenFile(p+fmt.Sprint(os.Getpid()), os.O_CREATE|os.O_WRONLY|os.O_APPEND, 0o644)
		return f
	}
	return nil
}()

// claim takes the first alternative of f whose successor state nobody has
// expanded yet (with at least this budget); false if there is none.  The
// successor's key is computed before the transition is executed
// (vs.Sched.PeekKey), so a transition into a known state costs no execution.
func (d *dfs) claim(f *frame) bool {
	for len(f.alts) > 0 {
		a := f.alts[0]
		f.alts = f.alts[1:]
		if a.budget < 0 {
			// unclaimed default-path step of parallel S2
			f.chosen = a.idx
			return true
		}
		_, _, _, fresh, prune := d.table.Claim(a.key, a.budget, 1)
		if prune {
			continue
		}
		if fresh {
			d.st.States++
			if dumpF != nil {
				fmt.Fprintf(dumpF, "%x %x\n", a.key.A, a.key.B)
			}
		}
		f.chosen = a.idx
		return true
	}
	return false
}

func (d *dfs) Pick(s *vs.Sched, en []vs.Trans) int {
	if d.opt.Mode == "D0" {
		// sequential driver: the canonical default schedule only, nothing recorded
		return DefaultIndex(s, en)
	}
	i := d.depth
	if i < len(d.stack) {
		f := &d.stack[i]
		if f.n != len(en) {
			vs.EngineError("replay divergence in %s at step %d: %d enabled now, %d before", d.sc.Name, i, len(en), f.n)
		}
		d.depth++
		return f.chosen
	}
	if d.replayOnly {
		vs.EngineError("replay of %s ran past the recorded choices at step %d", d.sc.Name, i)
	}
	// a state not on the stack yet: compute the keys of all its successors
	def := DefaultIndex(s, en)
	devs := 0
	if i > 0 {
		p := &d.stack[i-1]
		devs = p.devs
		if p.chosen != p.def {
			devs++
		}
	}
	s2 := d.opt.Mode == "S2"
	if d.cut > 0 && len(en) > 1 && (!s2 || devs < d.opt.Bound) {
		nb := 0
		for _, fr := range d.stack {
			if fr.n > 1 && (!s2 || fr.devs < d.opt.Bound) {
				nb++
			}
		}
		if nb >= d.cut {
			d.items = append(d.items, d.choices())
			return -1
		}
	}
	f := frame{n: len(en), def: def, devs: devs}
	order := make([]int, 0, len(en))
	order = append(order, def)
	for k := range en {
		if k != def {
			order = append(order, k)
		}
	}
	for _, k := range order {
		budget := 0
		if s2 {
			budget = d.opt.Bound - devs
			if k != def {
				budget--
			}
			if budget < 0 {
				continue
			}
		}
		if s2 && d.opt.NShards > 1 && devs == 0 && d.cut == 0 {
			// parallel S2: every worker walks the pure default path itself (never claimed); the first
			// deviation at step i belongs to worker i mod N; below that everything is shared through the table
			if k == def {
				f.alts = append(f.alts, alt{k, vs.H{}, -1})
				continue
			}
			if i%d.opt.NShards != d.opt.Shard {
				continue
			}
		}
		key, last := s.PeekKey(en[k])
		if s2 && last != nil {
			// the default continuation depends on the goroutine that ran last
			key = vs.MixH(key, last.ChainID())
		}
		d.st.Transitions++
		f.alts = append(f.alts, alt{k, key, budget})
	}
	if !d.claim(&f) {
		return -1
	}
	d.stack = append(d.stack, f)
	d.depth++
	return f.chosen
}

// next advances the stack to the next unexplored alternative; false when done.
func (d *dfs) next(floor int) bool {
	for len(d.stack) > floor {
		f := &d.stack[len(d.stack)-1]
		if d.claim(f) {
			return true
		}
		d.stack = d.stack[:len(d.stack)-1]
	}
	return false
}

// signature identifies the class of a violation.  A message of the form
// "<class> | <detail>" contributes only its class and the scenario family
// (name up to the first '/'), so that one defect showing up in many scenarios
// and inputs is one finding while a different defect is a different one.
func signature(sc string, msgs []string) string {
	if len(msgs) == 0 {
		return sc
	}
	if i := strings.Index(msgs[0], " | "); i > 0 {
		fam := sc
		if j := strings.Index(sc, "/"); j > 0 {
			fam = sc[:j]
		}
		return fam + " :: " + msgs[0][:i]
	}
	return sc + " :: " + msgs[0]
}

func (d *dfs) runOne(trace bool) (*vs.Result, []string, string) {
	inst := d.sc.New()
	d.depth = 0
	cfg := d.sc.Cfg
	cfg.Trace = trace
	r := vs.Execute(cfg, d, inst.Run)
	if r.Pruned {
		return r, nil, ""
	}
	var msgs []string
	for _, p := range r.Panics {
		msgs = append(msgs, fmt.Sprintf("panic in %s: %s", p.G, p.Value))
	}
	msgs = append(msgs, r.Failures...)
	if r.StepLimit {
		d.st.StepLimitHits++
		msgs = append(msgs, fmt.Sprintf("step limit %d reached (livelock or horizon missing)", r.Steps))
	}
	if len(r.Panics) == 0 && !r.StepLimit && inst.Check != nil {
		msgs = append(msgs, inst.Check(r)...)
	}
	out := ""
	if inst.Outcome != nil {
		out = inst.Outcome()
	}
	if inst.Counters != nil {
		if d.st.Counters == nil {
			d.st.Counters = map[string]int64{}
		}
		for k, v := range inst.Counters() {
			d.st.Counters[k] += v
		}
	}
	return r, msgs, out
}

func (d *dfs) choices() []int {
	c := make([]int, len(d.stack))
	for i, f := range d.stack {
		c[i] = f.chosen
	}
	return c
}

func (d *dfs) deviations() int {
	n := 0
	for _, f := range d.stack {
		if f.chosen != f.def {
			n++
		}
	}
	return n
}

// exploreFrom explores the subtree below the current stack prefix.
func (d *dfs) exploreFrom(floor int) bool {
	for {
		if !d.opt.Deadline.IsZero() && time.Now().After(d.opt.Deadline) {
			d.st.CapHit = "deadline"
			return false
		}
		if d.opt.MaxExec > 0 && d.st.Executions >= d.opt.MaxExec {
			d.st.CapHit = "max_executions"
			return false
		}
		r, msgs, out := d.runOne(false)
		if r.Pruned {
			d.st.Pruned++
		} else {
			d.st.Executions++
			if r.Steps > d.st.MaxDepth {
				d.st.MaxDepth = r.Steps
			}
			if r.AllG > d.st.MaxGoroutines {
				d.st.MaxGoroutines = r.AllG
			}
			if _, ok := d.st.Outcomes[out]; ok || len(d.st.Outcomes) < 20000 {
				d.st.Outcomes[out]++
			}
			if len(msgs) > 0 {
				d.st.ViolationCount++
				// one finding per class of message
				seenSig := map[string]bool{}
				for mi := range msgs {
					sig := signature(d.sc.Name, msgs[mi:mi+1])
					if seenSig[sig] {
						continue
					}
					seenSig[sig] = true
					ordered := append([]string{msgs[mi]}, append(append([]string{}, msgs[:mi]...), msgs[mi+1:]...)...)
					if len(ordered) > 4 {
						ordered = ordered[:4]
					}
					known := false
					for i := range d.st.Violations {
						if d.st.Violations[i].Signature == sig {
							known = true
							// keep the example with the fewest deviations
							dev := d.deviations()
							if dev < d.st.Violations[i].Deviations {
								d.st.Violations[i].Choices = d.choices()
								d.st.Violations[i].Deviations = dev
								d.st.Violations[i].Messages = ordered
							}
							break
						}
					}
					if !known && len(d.st.Violations) < d.opt.MaxViol {
						d.st.Violations = append(d.st.Violations, Violation{Scenario: d.sc.Name, Choices: d.choices(), Deviations: d.deviations(), Messages: ordered, Signature: sig})
					}
				}
				if d.opt.StopFirst {
					d.st.CapHit = "stopped at first violation"
					return false
				}
			}
		}
		if !d.next(floor) {
			return true
		}
	}
}

// Explore runs the scenario exhaustively under opt and returns statistics.
// With NShards > 1 every shard runs the same depth-first search in a
// different order against the shared visited table: a state is expanded by the
// worker that reaches it first, everybody else prunes there.
func Explore(sc Scenario, opt Options) *Stats {
	if opt.Mode == "" {
		opt.Mode = sc.Mode
	}
	if opt.Mode == "" {
		opt.Mode = "S1"
	}
	if opt.Mode == "S2" && opt.Bound == 0 {
		opt.Bound = sc.Bound
	}
	if opt.MaxViol == 0 {
		opt.MaxViol = 20
	}
	if opt.NShards == 0 {
		opt.NShards = 1
	}
	start := time.Now()
	st := &Stats{Scenario: sc.Name, Mode: opt.Mode, Bound: opt.Bound, Outcomes: map[string]int64{}}
	table := opt.Table
	if table == nil {
		bits := opt.TableBits
		if bits == 0 {
			bits = 22
		}
		table = NewLocalTable(bits)
	}
	d := &dfs{sc: sc, opt: opt, st: st, table: table}
	complete := true
	if opt.NShards <= 1 || opt.Mode == "S2" {
		complete = d.exploreFrom(0)
		if opt.Mode == "S2" && opt.NShards > 1 && opt.Shard > 0 && st.Executions > 0 {
			st.Executions-- // the pure default execution is run by every worker; shard 0 accounts for it
		}
	} else {
		items, shallow := enumerate(sc, opt)
		if opt.Shard == 0 {
			// executions that end above the cut are complete executions checked during enumeration
			// (states above the cut are not added: some of them are reached again below it and would be counted twice)
			st.Executions, st.Transitions = shallow.Executions, shallow.Transitions
			st.ViolationCount, st.Violations, st.Outcomes = shallow.ViolationCount, shallow.Violations, shallow.Outcomes
			st.MaxDepth, st.MaxGoroutines = shallow.MaxDepth, shallow.MaxGoroutines
		}
		off := 0
		if len(items) > 0 {
			off = opt.Shard * len(items) / opt.NShards
		}
		for jj := range items {
			item := items[(jj+off)%len(items)]
			d.loadPrefix(item)
			if !d.exploreFrom(len(item)) {
				complete = false
				break
			}
		}
	}
	if table.Full {
		complete = false
		st.CapHit = "visited table full (pruning degraded; not all states cached)"
	}
	if os.Getenv("VS_COUNT") != "" {
		fmt.Fprintf(os.Stderr, "table count shard %d: %d\n", opt.Shard, table.Count())
	}
	st.Complete = complete && st.CapHit == ""
	st.WallS = time.Since(start).Seconds()
	return st
}

// enumerate explores the part of the tree above a cut (a number of branching
// frames) with a private table and returns the prefixes of the distinct states
// at the cut: the work items.  Every worker computes the same list.
func enumerate(sc Scenario, opt Options) ([][]int, *Stats) {
	want := opt.NShards * 48
	var items [][]int
	var shallow *Stats
	for cut := 1; cut <= 64; cut++ {
		st := &Stats{Outcomes: map[string]int64{}}
		o := opt
		o.NShards, o.Shard = 1, 0
		o.Deadline = time.Time{}
		d := &dfs{sc: sc, opt: o, st: st, table: NewLocalTable(18), cut: cut}
		d.exploreFrom(0)
		prev := len(items)
		items, shallow = d.items, st
		if len(items) >= want || len(items) == 0 || (cut > 8 && len(items) <= prev) {
			break
		}
	}
	return items, shallow
}

// loadPrefix replays a work item once so that the frames of the prefix are known.
func (d *dfs) loadPrefix(item []int) {
	ld := &loader{choices: item}
	inst := d.sc.New()
	vs.Execute(d.sc.Cfg, ld, inst.Run)
	if len(ld.frames) < len(item) {
		vs.EngineError("work item of %s could not be replayed: %d of %d steps", d.sc.Name, len(ld.frames), len(item))
	}
	d.stack = append(d.stack[:0], ld.frames[:len(item)]...)
}

type loader struct {
	choices []int
	frames  []frame
}

func (l *loader) Pick(s *vs.Sched, en []vs.Trans) int {
	i := len(l.frames)
	if i >= len(l.choices) {
		return -1
	}
	def := DefaultIndex(s, en)
	devs := 0
	if i > 0 {
		p := l.frames[i-1]
		devs = p.devs
		if p.chosen != p.def {
			devs++
		}
	}
	c := l.choices[i]
	if c >= len(en) {
		vs.EngineError("schedule replay divergence at step %d: choice %d of %d", i, c, len(en))
	}
	l.frames = append(l.frames, frame{n: len(en), chosen: c, def: def, devs: devs})
	return c
}

// Replay re-executes one recorded choice list and returns messages + trace.
func Replay(sc Scenario, choices []int) (msgs []string, trace []string, res *vs.Result) {
	st := &Stats{Outcomes: map[string]int64{}}
	if sc.Mode == "D0" {
		d := &dfs{sc: sc, opt: Options{Mode: "D0"}, st: st}
		r, m, _ := d.runOne(false)
		return m, nil, r
	}
	d := &dfs{sc: sc, opt: Options{Mode: "replay"}, st: st, replayOnly: true}
	ld := &loader{choices: choices}
	inst := sc.New()
	vs.Execute(sc.Cfg, ld, inst.Run)
	if len(ld.frames) != len(choices) {
		vs.EngineError("replay: schedule has %d steps, execution made %d", len(choices), len(ld.frames))
	}
	d.stack = ld.frames
	r, m, _ := d.runOne(true)
	return m, r.Trace, r
}

func (v Violation) String() string {
	return fmt.Sprintf("%s deviations=%d steps=%d: %s", v.Scenario, v.Deviations, len(v.Choices), strings.Join(v.Messages, "; "))
}
