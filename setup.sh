#!/bin/bash
# setup_cmd: build the tools, generate the transformed go-lifecycle copy, warm the build cache.
set -euo pipefail
export GOFLAGS=-mod=mod GOPROXY=off GOSUMDB=off GOTOOLCHAIN=local
V=$(dirname "$(readlink -f "$0")")
export VERIF_DIR=$V
cd $V
mkdir -p bin gen evidence replays
(cd tools/chanxform && go build -o $V/bin/chanxform .)
LC=$(cd /repo && go list -m -f '{{.Dir}}' github.com/boz/go-lifecycle)
rm -rf gen/lc-src gen/go-lifecycle
mkdir -p gen/lc-src gen/go-lifecycle
cp $LC/*.go gen/lc-src/ 2>/dev/null || true
rm -f gen/lc-src/*_test.go
chmod -R u+w gen/lc-src
printf 'module github.com/boz/go-lifecycle\n\ngo 1.18\n' > gen/lc-src/go.mod
cp gen/lc-src/go.mod gen/go-lifecycle/go.mod
bin/chanxform -q -goprefix lib: -dir gen/lc-src -copy-module gen/go-lifecycle .
[ "${1:-}" = "gen-only" ] && exit 0
# warm the build cache with every harness binary
S=$(mktemp -d /var/tmp/vsetup-XXXXXX)
trap 'rm -rf "$S"' EXIT
for d in cmd/c*/; do
  id=$(basename $d)
  buf=$(cat $d/bufsiz 2>/dev/null || echo 100)
  ./vbuild.sh $S/$id $buf ./cmd/$id $S/$id/bin >/dev/null
done
./selftest.sh all
echo setup ok
