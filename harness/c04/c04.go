// Package c04: watch continuity - events keep flowing across reconnects
// without a relist.  L1 seam: the real _watcher with its real _watchSessions
// against the scripted API server, and a consumer that plays controller.run's
// loop exactly (it re-reads watcher.events() on every iteration and has no
// other wake-up source, because relists are disabled).  Faults are enumerated
// at every position of the server history.
package c04

import (
	"context"
	"fmt"
	"sort"
	"strings"
	"time"

	"github.com/boz/kcache"
	metav1 "k8s.io/apimachinery/pkg/apis/meta/v1"

	"verif/explore"
	"verif/harness/fakeapi"
	"verif/harness/hx"
	"verif/runner"
	"verif/vs"
)

type mut struct {
	op     string // set | del
	name   string
	labels string
}

type cfg struct {
	StartRV int // the server's versions start above this (0: from 1)
	Name    string
	Relist  bool // the consumer also performs one relist (list snapshot, reconcile, watcher.reset) at a scheduler-chosen moment
	Hist    []mut
	Paced   bool // one change at a time (quiescence in between)
	// SlowConsumer: the consumer takes 2 ms per event, so a burst queues up in the watch path (its buffers hold 100)
	SlowConsumer bool
	Faults       map[int]fakeapi.WatchFault // by watch call number
	Mode         string
	Bound        int
}

type inst struct {
	watchTimes  []int64
	watchFailed []bool
	c           cfg
	srv         *fakeapi.Server
	received    []string
	cache       map[string]metav1.Object
	final       string
	server      string
	finalRV     []string
	finished    bool
	clock       int64
	watches     int
	relists     int
}

func history(n int) []mut {
	h := []mut{{"set", "a", "l=1"}, {"set", "b", "l=1"}, {"set", "a", "l=0"}, {"del", "b", ""}}
	for len(h) < n {
		h = append(h, h[len(h)-4]) // long histories repeat the cycle (every step still changes the content)
	}
	return h[:n]
}

func (in *inst) run() {
	c := in.c
	in.srv = fakeapi.New()
	in.srv.SetStartRV(c.StartRV)
	in.srv.WatchFaults = c.Faults
	in.cache = map[string]metav1.Object{}
	stop := make(chan struct{})
	quit := make(chan struct{})
	w := kcache.VNewWatcher(context.Background(), hx.Log, stop, in.srv)
	// the "first list" saw an empty server at version 0
	if err := w.Reset(fmt.Sprint(c.StartRV)); err != nil {
		vs.Fail("reset | %v", err)
		return
	}
	// the consumer: controller.run's loop restricted to the watch case (plus one relist when asked for)
	relist := make(chan bool, 2)
	if c.Relist {
		go func() { relist <- true }()
	}
	consumerDone := make(chan bool)
	go func() {
		for {
			select {
			case evt := <-w.Events():
				o := evt.Resource()
				in.received = append(in.received, hx.EventString(evt))
				if c.SlowConsumer {
					time.Sleep(2 * time.Millisecond) // a controller that needs a moment per event: the watch path buffers meanwhile
				}
				// what the controller's cache does with it
				cur, ok := in.cache[hx.Key(o)]
				switch evt.Type() {
				case kcache.EventTypeDelete:
					delete(in.cache, hx.Key(o))
				default:
					if !ok || hx.Ver(o) > hx.Ver(cur) {
						in.cache[hx.Key(o)] = o
					}
				}
			case <-relist:
				// controller.run's list branch: reconcile the cache with the list, then reset the watch to the list's version
				snap, rv := in.srv.Snapshot()
				seen := map[string]bool{}
				for _, o := range snap {
					seen[hx.Key(o)] = true
					if cur, ok := in.cache[hx.Key(o)]; !ok || hx.Ver(o) > hx.Ver(cur) {
						in.cache[hx.Key(o)] = o
					}
				}
				for k := range in.cache {
					if !seen[k] {
						delete(in.cache, k)
					}
				}
				in.relists++
				if err := w.Reset(fmt.Sprint(rv)); err != nil {
					vs.Fail("reset | %v", err)
				}
			case <-quit:
				consumerDone <- true
				return
			}
		}
	}()
	// the server history, at scheduler chosen instants
	go func() {
		for _, m := range c.Hist {
			if c.Paced {
				// a consumer that keeps up: the next change happens when the last one has gone all the way through (the
				// watch path drops frames when more than a buffer's worth is outstanding - that is C03's/C10's subject)
				vs.SleepIdle(time.Millisecond)
			}
			if m.op == "set" {
				in.srv.Set("ns", m.name, hx.ParseLabels(m.labels))
			} else {
				in.srv.Delete("ns", m.name)
			}
		}
	}()
	// final reader: after every retry timer that can fire has fired and the system is quiet again
	vs.SleepIdle(10 * time.Second)
	in.clock = vs.ClockHere()
	close(quit)
	<-consumerDone
	var l []metav1.Object
	for _, o := range in.cache {
		l = append(l, o)
	}
	in.final = hx.ListString(l)
	in.server = hx.ListString(in.srv.Objects())
	in.finalRV = append([]string{}, in.srv.WatchRVs...)
	in.watchTimes = append([]int64{}, in.srv.WatchTimes...)
	in.watchFailed = append([]bool{}, in.srv.WatchFailed...)
	in.watches = in.srv.Watches
	close(stop)
	<-w.Done()
	in.finished = true
}

func (in *inst) check(r *vs.Result) []string {
	c := in.c
	desc := fmt.Sprintf("history %v, watch faults %v", c.Hist, faultString(c.Faults))
	if !in.finished {
		return []string{fmt.Sprintf("hang | %s: run did not finish; %d goroutines blocked", desc, len(r.Blocked))}
	}
	var msgs []string
	if in.final != in.server {
		msgs = append(msgs, fmt.Sprintf("watch events lost across reconnect | %s: after all reconnects (virtual time %ds, %d Watch calls at versions %v) the consumer's cache holds %s but the server holds %s; events received: %v",
			desc, in.clock/1e9, in.watches, in.finalRV, in.final, in.server, in.received))
	}
	// exactly once: a reconnect resumes after the last event received, so no frame reaches the consumer twice
	dupFault := false
	for _, f := range c.Faults {
		if f.Kind == "dup" {
			dupFault = true
		}
	}
	if !dupFault && !c.Relist {
		seenEv := map[string]bool{}
		for _, e := range in.received {
			if seenEv[e] {
				msgs = append(msgs, fmt.Sprintf("watch event delivered twice | %s: %s reached the consumer twice (Watch calls at versions %v); events received: %v", desc, e, in.finalRV, in.received))
				break
			}
			seenEv[e] = true
		}
	}
	// "within the reconnect delay": a failed connect is retried one reconnect delay (1 s) later, however many failed before
	for i := 0; i+1 < len(in.watchTimes); i++ {
		if in.watchFailed[i] && in.watchTimes[i+1]-in.watchTimes[i] > int64(time.Second) {
			msgs = append(msgs, fmt.Sprintf("reconnect later than the reconnect delay | %s: Watch call #%d failed at %dms, the next one came at %dms (Watch calls at %v ms)", desc, i+1, in.watchTimes[i]/1e6, in.watchTimes[i+1]/1e6, ms(in.watchTimes)))
			break
		}
	}
	if len(r.Blocked) > 0 {
		msgs = append(msgs, fmt.Sprintf("leak | goroutines left after the watcher is done: %v", names(r)))
	}
	return msgs
}

func ms(ts []int64) []int64 {
	out := make([]int64, len(ts))
	for i, t := range ts {
		out[i] = t / 1e6
	}
	return out
}

func names(r *vs.Result) []string {
	var out []string
	for _, b := range r.Blocked {
		out = append(out, b.Name)
	}
	return out
}

func faultString(f map[int]fakeapi.WatchFault) string {
	var ks []int
	for k := range f {
		ks = append(ks, k)
	}
	sort.Ints(ks)
	var ss []string
	for _, k := range ks {
		ss = append(ss, fmt.Sprintf("watch#%d:%s@%d", k, f[k].Kind, f[k].After))
	}
	return "[" + strings.Join(ss, " ") + "]"
}

func (in *inst) outcome() string {
	return fmt.Sprintf("recv=%v rvs=%v final=%s", in.received, in.finalRV, in.final)
}

func scenario(c cfg) runner.Sc {
	return runner.Sc{
		Scenario: explore.Scenario{
			Name: fmt.Sprintf("c04/%s/%s%d", c.Name, c.Mode, c.Bound), Mode: c.Mode, Bound: c.Bound,
			Cfg: vs.Config{Timers: vs.TimersLazy, MaxSteps: 100000},
			New: func() explore.Instance {
				in := &inst{c: c}
				return explore.Instance{Run: in.run, Check: in.check, Outcome: in.outcome}
			},
		},
		Split: true,
	}
}

func Property() runner.Property {
	return runner.Property{
		ID:              "C04",
		Level:           "model_checking",
		ThoroughBudgetS: 1200,
		Rule:            "real _watcher + _watchSession against a scripted API server; consumer = controller.run's loop restricted to the watch case (re-reads watcher.events() each iteration, no other wake-up because relists are disabled); server histories of <= 4 mutations over 2 keys at scheduler-chosen instants; watch faults {close after k frames, connect error (once, twice), status / bookmark / error / metadata-less frame, burst then close} enumerated at every position; retry timer (1s virtual) may fire between any two steps; oracle after all retries (virtual time 10s, relists never happen): the consumer-side cache equals the server, i.e. nothing the server reported was skipped or discarded",
		Assumptions: []string{
			"the consumer applies events with the version rules of the cache (C01)",
			"bursts stay below the buffer size, so an overflow drop cannot excuse a loss",
		},
		Scenarios: func(tier string) []runner.Sc {
			var out []runner.Sc
			W := func(k string, after int) fakeapi.WatchFault { return fakeapi.WatchFault{Kind: k, After: after} }
			hn := 3
			if tier == "thorough" {
				hn = 4
			}
			d := 2
			if tier == "thorough" {
				d = 3
			}
			out = append(out, scenario(cfg{Name: "nofault/h2", Hist: history(2), Mode: "S1"}))
			for pos := 0; pos <= hn; pos++ {
				out = append(out, scenario(cfg{Name: fmt.Sprintf("close@%d/h%d", pos, hn), Hist: history(hn), Faults: map[int]fakeapi.WatchFault{1: W("close", pos)}, Mode: "S2", Bound: d}))
			}
			for pos := 0; pos < hn; pos++ {
				for _, k := range []string{"status", "bookmark", "errorframe", "errorframe-obj", "errorframe-nil", "garbage", "dup"} {
					out = append(out, scenario(cfg{Name: fmt.Sprintf("%s@%d/h%d", k, pos, hn), Hist: history(hn), Faults: map[int]fakeapi.WatchFault{1: W(k, pos)}, Mode: "S2", Bound: d}))
				}
			}
			out = append(out, scenario(cfg{Name: "error,ok/h2", Hist: history(2), Faults: map[int]fakeapi.WatchFault{1: W("error", 0)}, Mode: "S2", Bound: d}))
			out = append(out, scenario(cfg{Name: "error,error,ok/h2", Hist: history(2), Faults: map[int]fakeapi.WatchFault{1: W("error", 0), 2: W("error", 0)}, Mode: "S2", Bound: d}))
			out = append(out, scenario(cfg{Name: "close@1,close@1/h3", Hist: history(3), Faults: map[int]fakeapi.WatchFault{1: W("close", 1), 2: W("close", 1)}, Mode: "S2", Bound: d}))
			// five failed connects in a row (and: spread over the history), then a working one: any number of them is survived
			five := map[int]fakeapi.WatchFault{}
			for i := 1; i <= 5; i++ {
				five[i] = W("error", 0)
			}
			out = append(out, scenario(cfg{Name: "error x5,ok/h2", Hist: history(2), Faults: five, Mode: "S2", Bound: 1}))
			out = append(out, scenario(cfg{Name: "close@1,error,close@1,error,close@0,error,error,error,ok/h3", Hist: history(3), Faults: map[int]fakeapi.WatchFault{1: W("close", 1), 2: W("error", 0), 3: W("close", 1), 4: W("error", 0), 5: W("close", 0), 6: W("error", 0), 7: W("error", 0), 8: W("error", 0)}, Mode: "S2", Bound: 1}))
			// a bookmark and the end of the stream right behind a burst
			for _, pos := range []int{2, 3} {
				out = append(out, scenario(cfg{Name: fmt.Sprintf("bookmark+close@%d/h%d", pos, hn), Hist: history(hn), Faults: map[int]fakeapi.WatchFault{1: W("bookmark+close", pos)}, Mode: "S2", Bound: d + 1}))
			}
			// long streams on the default schedule and its immediate neighbours: nothing depends on how many frames have
			// passed or on how many digits a version has (versions run to 120 and, from 950, across 999 -> 1000)
			out = append(out, scenario(cfg{Name: "ok/h120", Hist: history(120), Paced: true, Mode: "D0"}))
			out = append(out, scenario(cfg{Name: "close@60/h120", Hist: history(120), Paced: true, Faults: map[int]fakeapi.WatchFault{1: W("close", 60)}, Mode: "D0"}))
			out = append(out, scenario(cfg{Name: "close@100,error,close@20/h120/from950", StartRV: 950, Hist: history(120), Paced: true, Faults: map[int]fakeapi.WatchFault{1: W("close", 100), 2: W("error", 0), 3: W("close", 20)}, Mode: "D0"}))
			// 30 changes at once and a consumer slower than the stream - far below the buffers of the watch path: nothing
			// is lost, also across a close in the middle
			out = append(out, scenario(cfg{Name: "burst30/slow-consumer", Hist: history(30), SlowConsumer: true, Mode: "S2", Bound: 1}))
			out = append(out, scenario(cfg{Name: "burst30/slow-consumer/close@15", Hist: history(30), SlowConsumer: true, Faults: map[int]fakeapi.WatchFault{1: W("close", 15)}, Mode: "S2", Bound: 1}))
			// versions cross 9 -> 10 (a resume version compared as a string goes wrong there)
			for _, pos := range []int{1, 2, 3} {
				out = append(out, scenario(cfg{Name: fmt.Sprintf("digit-boundary/close@%d/h4", pos), StartRV: 8, Hist: history(4), Faults: map[int]fakeapi.WatchFault{1: W("close", pos)}, Mode: "S2", Bound: d}))
			}
			// a reconnect answered with 410 Gone (connect error): nothing may be skipped by starting over "from now"
			out = append(out, scenario(cfg{Name: "close@1,expired,ok/h3", Hist: history(3), Faults: map[int]fakeapi.WatchFault{1: W("close", 1), 2: W("expired", 0)}, Mode: "S2", Bound: d}))
			out = append(out, scenario(cfg{Name: "close@1/h1", Hist: history(1), Faults: map[int]fakeapi.WatchFault{1: W("close", 1)}, Mode: "S1"}))
			// a relist in the middle of a delete + re-create: events the watcher took before the reset must not be applied after it
			recreate := []mut{{"set", "a", "l=1"}, {"del", "a", ""}, {"set", "a", "l=1"}}
			out = append(out, scenario(cfg{Name: "relist/set,del,set", Relist: true, Hist: recreate, Mode: "S2", Bound: d + 1}))
			// ... and the re-create frame is lost by the stream (the list repairs it): a stale delete must not undo the list
			out = append(out, scenario(cfg{Name: "relist+drop@2/set,del,set", Relist: true, Hist: recreate, Faults: map[int]fakeapi.WatchFault{1: W("drop", 2)}, Mode: "S2", Bound: d + 1}))
			out = append(out, scenario(cfg{Name: "relist+close@2/set,del,set", Relist: true, Hist: recreate, Faults: map[int]fakeapi.WatchFault{1: W("close", 2)}, Mode: "S2", Bound: d + 1}))
			out = append(out, scenario(cfg{Name: "relist/set,del", Relist: true, Hist: recreate[:2], Mode: "S2", Bound: d + 1}))
			if tier == "thorough" {
				out = append(out, scenario(cfg{Name: "relist/set", Relist: true, Hist: recreate[:1], Mode: "S1"}))
			}
			if tier == "thorough" {
				out = append(out, scenario(cfg{Name: "close@1/h2", Hist: history(2), Faults: map[int]fakeapi.WatchFault{1: W("close", 1)}, Mode: "S1"}))
				out = append(out, scenario(cfg{Name: "close@2/h3", Hist: history(3), Faults: map[int]fakeapi.WatchFault{1: W("close", 2)}, Mode: "S1"}))
				out = append(out, scenario(cfg{Name: "error,close@1/h3", Hist: history(3), Faults: map[int]fakeapi.WatchFault{1: W("error", 0), 2: W("close", 1)}, Mode: "S2", Bound: 3}))
			}
			sort.SliceStable(out, func(i, j int) bool { return out[i].Mode == "S2" && out[j].Mode != "S2" })
			return out
		},
	}
}
