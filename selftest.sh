#!/bin/bash
# Engine self-tests (also run by setup.sh):
#  1. translation validation: the repository's own test suite passes on the TRANSFORMED tree with the native
#     pass-through shim (the untransformed _test.go files operate on the same channels);
#  2. explorer self-tests: known state counts, known-bug programs, single- vs multi-process state-set equality,
#     PeekKey == apply on every step of a real scenario;
#  3. (race) free-running -race pass of cache readers/writers on the untransformed sources.
set -euo pipefail
export GOFLAGS=-mod=mod GOPROXY=off GOSUMDB=off GOTOOLCHAIN=local
V=$(dirname "$(readlink -f "$0")")
export VERIF_DIR=$V
S=$(mktemp -d ${VERIF_SCRATCH:-/var/tmp}/vself-XXXXXX)
trap 'rm -rf "$S"' EXIT
cd $V
what=${1:-all}
if [ "$what" = all ] || [ "$what" = translate ]; then
  ./vbuild.sh $S/t 100 ./cmd/smoke $S/t/smoke >/dev/null
  if ! go test -overlay $S/t/overlay.json -tags "verif vsnative" -vet=off -count=1 github.com/boz/kcache/... > $S/t/out.txt 2>&1; then
    cat $S/t/out.txt; echo "SELFTEST FAILED: repository tests do not pass on the transformed tree"; exit 1
  fi
  echo "selftest translate: repository test suite passes on the transformed tree (native shim)"
fi
if [ "$what" = all ] || [ "$what" = explorer ]; then
  ./vbuild.sh $S/e 100 ./cmd/selftest $S/e/bin >/dev/null
  $S/e/bin -tier quick -evidence $S/e/ev.json > $S/e/out.txt 2>&1 || { cat $S/e/out.txt; echo "SELFTEST FAILED: explorer self-tests"; exit 1; }
  tail -1 $S/e/out.txt
  VS_CHECK_PEEK=1 $S/e/bin -tier quick -evidence $S/e/ev.json > $S/e/out2.txt 2>&1 || { cat $S/e/out2.txt; echo "SELFTEST FAILED: PeekKey/apply agreement"; exit 1; }
  ./vbuild.sh $S/p 100 ./cmd/c13 $S/p/c13 >/dev/null
  VS_CHECK_PEEK=1 $S/p/c13 -tier quick -scenario 'L5/D5/N3/close0/fuzz3' -evidence $S/p/ev.json > $S/p/out.txt 2>&1 || { cat $S/p/out.txt; echo "SELFTEST FAILED: PeekKey/apply agreement (timers)"; exit 1; }
  ./vbuild.sh $S/q 100 ./cmd/c03 $S/q/c03 >/dev/null
  VS_CHECK_PEEK=1 $S/q/c03 -tier quick -scenario 'watch-never-connects' -evidence $S/q/ev.json > $S/q/out.txt 2>&1 || { cat $S/q/out.txt; echo "SELFTEST FAILED: PeekKey/apply agreement (whole controller)"; exit 1; }
  echo "selftest explorer: ok (PeekKey agrees with apply on every step of the self tests, a C13 and a C03 scenario)"
fi
if [ "$what" = all ] || [ "$what" = race ]; then
  printf '{"Replace":{"/repo/zz_verif_export.go":"%s/overlay/kcache/zz_verif_export.go"}}' $V > $S/native.json
  if ! go test -race -overlay $S/native.json -tags "verif vsnative" -vet=off -count=1 ./selftest/race/ > $S/race.txt 2>&1; then
    cat $S/race.txt; echo "RACE PASS FAILED"; exit 1
  fi
  echo "selftest race: no data race reported (auxiliary, sampling)"
fi
