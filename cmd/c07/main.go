package main

import (
	"verif/harness/c07"
	"verif/runner"
)

func main() { runner.Main(c07.Property()) }
