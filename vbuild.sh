#!/bin/bash
# vbuild.sh <scratch> <bufsiz> <main package> <output binary> [extra go build flags]
# Transforms /repo's current working tree + the harness and builds one harness binary.
set -euo pipefail
export GOFLAGS=-mod=mod GOPROXY=off GOSUMDB=off GOTOOLCHAIN=local
V=$(dirname "$(readlink -f "$0")")
export VERIF_DIR=$V
S=$1; BUF=$2; MAIN=$3; OUT=$4; shift 4
mkdir -p "$S"
[ -x $V/bin/chanxform ] && [ $V/bin/chanxform -nt $V/tools/chanxform/main.go ] || (cd $V/tools/chanxform && go build -o $V/bin/chanxform .)
[ -f $V/gen/go-lifecycle/lifecycle.go ] || $V/setup.sh gen-only
REPO_PKGS=". ./client ./filter ./nsname ./join $(cd /repo && ls -d types/*/ | grep -v types/gen | sed 's#^#./#;s#/$##' | tr '\n' ' ')"
SRCADD="/repo/zz_verif_export.go=$V/overlay/kcache/zz_verif_export.go"
for d in $V/overlay/types/*.go; do
  [ -f "$d" ] || continue
  n=$(basename $d .go)
  SRCADD="$SRCADD,/repo/types/$n/zz_verif_export.go=$d"
done
# Testing aid (tools/seedcheck.sh): VERIF_MUT_DIR names a full copy of /repo with a candidate change applied; its
# differing non-test .go files are laid over /repo's through the same source overlay, so /repo itself stays untouched
# and several changes can be tried in parallel.  Never set by a registered command: checks judge /repo's working tree.
if [ -n "${VERIF_MUT_DIR:-}" ]; then
  while read -r rel; do
    SRCADD="$SRCADD,/repo/$rel=$VERIF_MUT_DIR/$rel"
  done < <(cd "$VERIF_MUT_DIR" && find . -name '*.go' ! -name '*_test.go' ! -path './_*' ! -path './.git/*' | sed 's#^\./##' | while read -r f; do cmp -s "$f" "/repo/$f" || echo "$f"; done)
fi
rm -f $S/overlay.json
$V/bin/chanxform -q -goprefix lib: -dir /repo -out $S/src -overlay $S/overlay.json -bufconst EventBufsiz=$BUF -srcadd "$SRCADD" $REPO_PKGS
$V/bin/chanxform -q -dir $V -out $S/src -overlay $S/overlay.json -srcadd "$SRCADD" ./harness/...
sed 's/^go 1\.1[0-9]$/go 1.20/' /repo/go.mod > $S/repo.go.mod
python3 - "$S" <<'PY'
import json,sys
S=sys.argv[1]
p=S+'/overlay.json'; o=json.load(open(p)); o['Replace']['/repo/go.mod']=S+'/repo.go.mod'; json.dump(o,open(p,'w'),indent=1)
PY
cd $V && go build -overlay $S/overlay.json -tags verif "$@" -o "$OUT" "$MAIN"
