#!/bin/bash
# tools/seedcheck.sh <patch.diff> <ID> [<ID>...]: applies the patch to /repo, runs the given checks (quick tier,
# or $TIER), prints one line per check, reverts /repo.  Evidence goes to a scratch file (the committed evidence is untouched).
set -uo pipefail
P=$1; shift
cd /repo || exit 2
if ! git diff --quiet; then echo "repo dirty"; exit 2; fi
if ! git apply --check "$P" 2>/dev/null; then echo "patch does not apply: $P"; exit 2; fi
git apply "$P"
trap 'git -C /repo checkout -- . ; git -C /repo clean -fdq' EXIT
cd /verif
for id in "$@"; do
  out=$(./check $id --tier ${TIER:-quick} -evidence /var/tmp/seedcheck-ev.json 2>&1)
  rc=$?
  sig=$(echo "$out" | grep -A1 VIOLATION | grep -v VIOLATION | grep -v '^--' | head -2 | cut -c1-330)
  echo "$id rc=$rc $(echo "$out" | grep -E "^$id tier" | sed 's/.*exhaustive/exhaustive/')"
  [ -n "$sig" ] && echo "$sig"
  if [ $rc -eq 2 ]; then echo "$out" | grep -E "ENGINE|error|cannot" | head -5; fi
done
rm -f /var/tmp/seedcheck-ev.json
