package main

import (
	"verif/harness/c11"
	"verif/runner"
)

func main() { runner.Main(c11.Property("C11")) }
