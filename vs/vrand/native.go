//go:build vsnative

package vrand

import "math/rand"

var Floats = []float64{0.5}

func Float64() float64 { return rand.Float64() }
func Intn(n int) int   { return rand.Intn(n) }
func Int() int         { return rand.Int() }
func Int63() int64     { return rand.Int63() }
func Seed(s int64)     {}
