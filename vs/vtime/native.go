//go:build vsnative

package vtime

import "time"

type Duration = time.Duration
type Time = time.Time
type Month = time.Month
type Timer = time.Timer

const (
	Nanosecond  = time.Nanosecond
	Microsecond = time.Microsecond
	Millisecond = time.Millisecond
	Second      = time.Second
	Minute      = time.Minute
	Hour        = time.Hour
)

func NewTimer(d Duration) *Timer            { return time.NewTimer(d) }
func AfterFunc(d Duration, f func()) *Timer { return time.AfterFunc(d, f) }
func Now() Time                             { return time.Now() }
func Since(t Time) Duration                 { return time.Since(t) }
func After(d Duration) <-chan Time          { return time.After(d) }
func Sleep(d Duration)                      { time.Sleep(d) }
func Unix(sec, nsec int64) Time             { return time.Unix(sec, nsec) }
