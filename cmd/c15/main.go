package main

import (
	"verif/harness/c15"
	"verif/runner"
)

func main() { runner.Main(c15.Property()) }
