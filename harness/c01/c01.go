// Package c01 decides C01 (cache content = reference semantics) and C02
// (emitted events are an exact, minimal, well-formed delta) by explicit-state
// search: every abstract cache state reachable in the reference model is
// rebuilt on the real _cache (fresh instance + shortest history), every
// operation of the alphabet is applied to it through the real request
// channels, and the result is compared with the reference on every transition.
package c01

import (
	"context"
	"fmt"
	"sort"
	"strings"

	"github.com/boz/kcache"
	"github.com/boz/kcache/filter"
	"github.com/boz/kcache/nsname"
	metav1 "k8s.io/apimachinery/pkg/apis/meta/v1"
	"k8s.io/apimachinery/pkg/types"

	"verif/explore"
	"verif/harness/c03"
	"verif/harness/c05"
	"verif/harness/c06"
	"verif/harness/hx"
	"verif/runner"
	"verif/vs"
)

// ---- universe ---------------------------------------------------------------

var keys = []string{"a", "b"}

// the largest version does not fit in 32 bits (resource versions are etcd revisions: int64)
var vers = []string{"-1", "0", "1", "2", "5000000000", "x"}
var vnum = []int{-1, 0, 1, 2, 5000000000, 0}

const nNumeric = 5 // vers[0:5] are numeric
var labels = []string{"0", "1"}

type obj struct{ key, ver, label int }

func (o obj) id() int       { return (o.key*len(vers)+o.ver)*2 + o.label }
func (o obj) numeric() bool { return o.ver < nNumeric }
func (o obj) String() string {
	return fmt.Sprintf("%s@%s{l=%s}", keys[o.key], vers[o.ver], labels[o.label])
}

// real builds the API object.  Its UID follows the label, so that "same key, other content" also is "same name,
// other UID" (an object deleted and re-created under its name): the cache keys by namespace/name only.
func (o obj) real() metav1.Object {
	p := hx.Pod("ns", keys[o.key], vers[o.ver], "l="+labels[o.label])
	p.UID = types.UID("uid-" + labels[o.label])
	return p
}

func allObjs() []obj {
	var out []obj
	for k := range keys {
		for v := range vers {
			for l := range labels {
				out = append(out, obj{k, v, l})
			}
		}
	}
	return out
}

var filterNames = []string{"Null", "All", "Labels{l=1}", "NSName(ns/a)", "FN(l==1)"}

func mkFilter(i int) filter.Filter {
	switch i {
	case 0:
		return filter.Null()
	case 1:
		return filter.All()
	case 2:
		return filter.Labels(map[string]string{"l": "1"})
	case 3:
		return filter.NSName(nsname.New("ns", "a"))
	default:
		return filter.FN(func(o metav1.Object) bool { return o.GetLabels()["l"] == "1" })
	}
}

func accepts(f int, o obj) bool {
	switch f {
	case 0:
		return true
	case 1:
		return false
	case 2, 4:
		return o.label == 1
	default:
		return o.key == 0
	}
}

// ---- reference model ----------------------------------------------------------

// state: filter index and, per key, 0 = absent or 1 + ver*2 + label.
type state struct {
	f uint8
	e [2]uint8
}

func (s state) get(k int) (obj, bool) {
	if s.e[k] == 0 {
		return obj{}, false
	}
	x := int(s.e[k] - 1)
	return obj{k, x / 2, x % 2}, true
}
func (s *state) set(o obj) { s.e[o.key] = uint8(1 + o.ver*2 + o.label) }
func (s *state) del(k int) { s.e[k] = 0 }
func (s state) content() string {
	var ss []string
	for k := range keys {
		if o, ok := s.get(k); ok {
			ss = append(ss, "ns/"+o.String())
		}
	}
	sort.Strings(ss)
	return "[" + strings.Join(ss, " ") + "]"
}
func (s state) String() string { return filterNames[s.f] + s.content() }

// upsert applies one evented object (update events carry exactly one object).
func (s *state) upsert(o obj) {
	if !o.numeric() {
		return
	}
	cur, ok := s.get(o.key)
	acc := accepts(int(s.f), o)
	switch {
	case !ok && acc:
		s.set(o)
	case !ok:
	case vnum[o.ver] > vnum[cur.ver] && acc:
		s.set(o)
	case vnum[o.ver] > vnum[cur.ver]:
		s.del(o.key)
	}
}

// sync is the declarative reading of the property for a list: per key, the
// newest version seen (among the cached object and all well-formed entries of
// the list) wins; the key is present iff that object passes the filter; keys
// without a well-formed entry in the list are absent.  Ties between different
// objects of one version are the unspecified corner (sameVersionConflict); the
// first one met (cached first) is taken here.
func (s *state) sync(list []obj) {
	for k := range keys {
		var win obj
		have, listed := false, false
		if c, ok := s.get(k); ok {
			win, have = c, true
		}
		for _, o := range list {
			if o.key != k || !o.numeric() {
				continue
			}
			listed = true
			if !have || vnum[o.ver] > vnum[win.ver] {
				win, have = o, true
			}
		}
		if !listed || !accepts(int(s.f), win) {
			s.del(k)
		} else {
			s.set(win)
		}
	}
}

type op struct {
	kind string // sync | update | refilter
	list []obj
	ev   string // create | update | delete
	o    obj
	f    int
}

func (p op) String() string {
	switch p.kind {
	case "sync":
		return fmt.Sprintf("sync(%v)", p.list)
	case "update":
		return fmt.Sprintf("update(%s,%v)", p.ev, p.o)
	default:
		return fmt.Sprintf("refilter(%v,%s)", p.list, filterNames[p.f])
	}
}

// apply returns the allowed successor states (two for a stale delete, which the property leaves open).
func (s state) apply(p op) []state {
	n := s
	switch p.kind {
	case "sync":
		n.sync(p.list)
	case "refilter":
		n.f = uint8(p.f)
		n.sync(p.list)
	case "update":
		if !p.o.numeric() {
			return []state{n}
		}
		if p.ev == "delete" {
			cur, ok := n.get(p.o.key)
			if !ok {
				return []state{n}
			}
			d := n
			d.del(p.o.key)
			if vnum[p.o.ver] < vnum[cur.ver] {
				return []state{d, n} // unspecified: either outcome
			}
			return []state{d}
		}
		n.upsert(p.o)
	}
	return []state{n}
}

// sameVersionConflict: the operation confronts two different objects of one key
// with the same resource version (cached vs listed, or two list entries).  The
// property's clauses contradict each other there ("not newer never replaces" vs
// "present iff accepted and no newer version seen"), so the resulting content is
// unspecified; everything else (no crash, filter invariant, event delta) is still checked.
func sameVersionConflict(pre state, p op) bool {
	if p.kind == "update" {
		return false // one evented object against the cached one: "not newer never replaces" decides
	}
	f := int(pre.f)
	if p.kind == "refilter" {
		f = p.f
	}
	for i, a := range p.list {
		if !a.numeric() {
			continue
		}
		// two different list entries of one key with the same version: which one wins is unspecified
		for _, b := range p.list[i+1:] {
			if a.key == b.key && b.numeric() && vnum[a.ver] == vnum[b.ver] && a.label != b.label {
				return true
			}
		}
		// refilter only: the cached object fails the new filter and the list offers the same version with other content
		if c, ok := pre.get(a.key); ok && p.kind == "refilter" && !accepts(f, c) && vnum[a.ver] == vnum[c.ver] && a.label != c.label {
			return true
		}
	}
	return false
}

// alphabet of a tier.
func alphabet(tier string) []op {
	os := allObjs()
	var lists [][]obj
	lists = append(lists, nil)
	for _, o := range os {
		lists = append(lists, []obj{o})
	}
	for _, a := range os {
		for _, b := range os {
			if tier == "thorough" || a.key == b.key {
				lists = append(lists, []obj{a, b})
			}
		}
	}
	if tier == "thorough" {
		// length 3 over a sub-universe: versions {0,1,2}, both labels, both keys (12 objects)
		var sub []obj
		for _, o := range os {
			if o.ver >= 1 && o.ver <= 3 {
				sub = append(sub, o)
			}
		}
		for _, a := range sub {
			for _, b := range sub {
				for _, c := range sub {
					lists = append(lists, []obj{a, b, c})
				}
			}
		}
	}
	var out []op
	for _, l := range lists {
		out = append(out, op{kind: "sync", list: l})
	}
	for _, ev := range []string{"create", "update", "delete"} {
		for _, o := range os {
			out = append(out, op{kind: "update", ev: ev, o: o})
		}
	}
	for f := range filterNames {
		for _, l := range lists {
			if len(l) <= 2 {
				out = append(out, op{kind: "refilter", list: l, f: f})
			}
		}
	}
	return out
}

type node struct {
	s     state
	hist  []op
	class string // class (shape) of the last operation of hist
	// alts: other histories reaching s whose LAST operation is of another class (created by a list / updated by a
	// list / created by an event / ...): state the reference model cannot tell apart may still differ inside the
	// implementation (a stored version, a memo), so the state is also rebuilt along these
	alts [][]op
}

// reachable does BFS over the reference model from every initial filter.
func reachable(alpha []op) []node {
	seen := map[state]bool{}
	var out []node
	var queue []node
	for f := range filterNames {
		s := state{f: uint8(f)}
		seen[s] = true
		n := node{s: s}
		queue = append(queue, n)
	}
	type altKey struct {
		s     state
		class string
	}
	alts := map[altKey][]op{}
	for len(queue) > 0 {
		n := queue[0]
		queue = queue[1:]
		out = append(out, n)
		for _, p := range alpha {
			for _, t := range n.s.apply(p) {
				if !seen[t] {
					seen[t] = true
					h := append(append([]op{}, n.hist...), p)
					queue = append(queue, node{s: t, hist: h, class: altClass(n.s, p)})
				}
				if t != n.s && len(p.list) <= 1 {
					k := altKey{t, altClass(n.s, p)}
					if _, ok := alts[k]; !ok {
						alts[k] = append(append([]op{}, n.hist...), p)
					}
				}
			}
		}
	}
	for i := range out {
		var ks []string
		for k := range alts {
			if k.s == out[i].s {
				ks = append(ks, k.class)
			}
		}
		sort.Strings(ks)
		for _, c := range ks {
			if c == out[i].class {
				continue // same class as the main history
			}
			if len(out[i].alts) < 10 {
				out[i].alts = append(out[i].alts, alts[altKey{out[i].s, c}])
			}
		}
	}
	return out
}

// altClass: how the last operation of a history produced the state: operation kind, and for the object it carries
// whether the key was absent or cached at an older / the same / a newer version before.
func altClass(pre state, p op) string {
	rel := func(o obj) string {
		c, ok := pre.get(o.key)
		switch {
		case !ok:
			return "absent"
		case !o.numeric():
			return "malformed"
		case vnum[o.ver] > vnum[c.ver]:
			return "cached-older"
		case vnum[o.ver] == vnum[c.ver]:
			return "cached-same"
		}
		return "cached-newer"
	}
	switch p.kind {
	case "update":
		return "update/" + p.ev + "/" + rel(p.o)
	default:
		c := p.kind
		if p.kind == "refilter" && p.f != int(pre.f) {
			c += "/other-filter"
		}
		for _, o := range p.list {
			c += "/" + rel(o)
		}
		if len(p.list) == 0 {
			c += "/empty"
		}
		return c
	}
}

// ---- implementation side ------------------------------------------------------

type guardFilter struct {
	inner filter.Filter
	in    *inst
	name  string
}

func (g guardFilter) Accept(o metav1.Object) bool {
	if o == nil {
		// the cache handed a nil object to the user's filter: would the real filter crash?
		crashed := false
		func() {
			defer func() {
				if recover() != nil {
					crashed = true
				}
			}()
			g.inner.Accept(nil)
		}()
		if crashed {
			g.in.nilCrash = g.name
		}
		return false
	}
	return g.inner.Accept(o)
}

// Equals makes the guard exactly as comparable as the filter it wraps (a cache that consults FiltersEqual on
// refilter must see Null == Null, Labels == Labels, ... and FN != FN, as it would without the guard).
func (g guardFilter) Equals(other filter.Filter) bool {
	if og, ok := other.(guardFilter); ok {
		other = og.inner
	}
	return filter.FiltersEqual(g.inner, other)
}

type inst struct {
	prop        string
	n           node
	alpha       []op
	msgs        []string
	nilCrash    string
	checked     int64
	unspecified int64
	finished    bool
	curOp       string
}

// fail records a violation; class identifies the kind of failing input (it becomes the finding signature).
func (in *inst) fail(prop, class, format string, args ...interface{}) {
	if prop != in.prop {
		return
	}
	for _, m := range in.msgs {
		if strings.HasPrefix(m, class+" | ") {
			return // one example per class and state is enough
		}
	}
	if len(in.msgs) < 12 {
		in.msgs = append(in.msgs, class+" | "+fmt.Sprintf(format, args...))
	}
}

// shape describes the input class of an operation in the terms the property uses.
func shape(pre state, p op) string {
	switch p.kind {
	case "update":
		_, present := pre.get(p.o.key)
		rel := "absent"
		if present {
			c, _ := pre.get(p.o.key)
			switch {
			case !p.o.numeric():
				rel = "malformed"
			case vnum[p.o.ver] > vnum[c.ver]:
				rel = "newer"
			case vnum[p.o.ver] == vnum[c.ver]:
				rel = "same"
			default:
				rel = "older"
			}
		} else if !p.o.numeric() {
			rel = "absent-malformed"
		}
		return fmt.Sprintf("update(%s) version=%s accepted=%v", p.ev, rel, accepts(int(pre.f), p.o))
	default:
		f := int(pre.f)
		if p.kind == "refilter" {
			f = p.f
		}
		dup, malformed, lowAbsentRejected, newestRejected := false, false, false, false
		for k := range keys {
			var cands []obj
			n := 0
			if c, ok := pre.get(k); ok {
				cands = append(cands, c)
			}
			for _, o := range p.list {
				if o.key != k {
					continue
				}
				if !o.numeric() {
					malformed = true
					continue
				}
				n++
				cands = append(cands, o)
				if _, present := pre.get(k); !present && vnum[o.ver] <= 0 && !accepts(f, o) {
					lowAbsentRejected = true
				}
			}
			if n >= 2 {
				dup = true
				// the newest candidate is rejected although an older one would pass the filter
				win := cands[0]
				for _, o := range cands {
					if vnum[o.ver] > vnum[win.ver] {
						win = o
					}
				}
				if !accepts(f, win) {
					for _, o := range cands {
						if accepts(f, o) {
							newestRejected = true
						}
					}
				}
			}
		}
		laterNewerRejected := newestRejected
		return fmt.Sprintf("%s duplicate-key=%v malformed-entry=%v absent-key-version<=0-rejected=%v duplicate-key-whose-newest-version-is-rejected=%v", p.kind, dup, malformed, lowAbsentRejected, laterNewerRejected)
	}
}

func reals(l []obj) []metav1.Object {
	out := make([]metav1.Object, 0, len(l))
	for _, o := range l {
		out = append(out, o.real())
	}
	return out
}

func (in *inst) guard(f int) filter.Filter {
	return guardFilter{inner: mkFilter(f), in: in, name: filterNames[f]}
}

func (in *inst) applyReal(c kcache.VCache, p op) ([]kcache.Event, error) {
	switch p.kind {
	case "sync":
		return c.Sync(reals(p.list))
	case "refilter":
		return c.Refilter(reals(p.list), in.guard(p.f))
	default:
		t := kcache.EventTypeCreate
		if p.ev == "update" {
			t = kcache.EventTypeUpdate
		} else if p.ev == "delete" {
			t = kcache.EventTypeDelete
		}
		return c.Update(kcache.NewEvent(t, p.o.real()))
	}
}

type live struct {
	c    kcache.VCache
	stop chan struct{}
}

func (in *inst) build() live {
	stop := make(chan struct{})
	f0 := in.n.s.f
	if len(in.n.hist) > 0 {
		// the history starts from the initial state whose filter is the first filter in force
		f0 = in.initialFilter()
	}
	c := kcache.VNewCache(context.Background(), hx.Log, stop, in.guard(int(f0)))
	for _, p := range in.n.hist {
		in.curOp = "history " + p.String()
		in.applyReal(c, p)
	}
	return live{c, stop}
}

// initialFilter: BFS histories start at one of the initial states; which one is recorded by replaying the model.
func (in *inst) initialFilter() uint8 {
	for f := range filterNames {
		s := state{f: uint8(f)}
		ok := true
		cur := []state{s}
		for _, p := range in.n.hist {
			var nxt []state
			for _, c := range cur {
				nxt = append(nxt, c.apply(p)...)
			}
			cur = nxt
		}
		ok = false
		for _, c := range cur {
			if c == in.n.s {
				ok = true
			}
		}
		if ok {
			return uint8(f)
		}
	}
	return in.n.s.f
}

func (l live) close() {
	close(l.stop)
	<-l.c.Done()
}

func content(l []metav1.Object) string {
	ss := make([]string, 0, len(l))
	for _, o := range l {
		ss = append(ss, fmt.Sprintf("ns/%s@%s{l=%s}", o.GetName(), o.GetResourceVersion(), o.GetLabels()["l"]))
	}
	sort.Strings(ss)
	return "[" + strings.Join(ss, " ") + "]"
}

func (in *inst) run() {
	in.explore(in.alpha)
	if !in.finished {
		return
	}
	// the same state rebuilt along histories whose last operation is of another class, with the single-entry part of
	// the alphabet: differences the reference state cannot express (a stored version, a memo) show up here
	main := in.n.hist
	var small []op
	for _, p := range in.alpha {
		if len(p.list) <= 1 {
			small = append(small, p)
		}
	}
	for _, h := range in.n.alts {
		in.n.hist = h
		in.finished = false
		in.explore(small)
		if !in.finished {
			break
		}
	}
	in.n.hist = main
}

func (in *inst) explore(alpha []op) {
	lv := in.build()
	// sanity: the rebuilt instance is in the model state
	l0, _ := lv.c.List()
	if content(l0) != in.n.s.content() {
		in.fail("C01", "rebuild", "state %v: replaying its shortest history %v on a fresh cache gives %s", in.n.s, in.n.hist, content(l0))
		in.fail("C02", "rebuild", "state %v: replaying its shortest history %v on a fresh cache gives %s", in.n.s, in.n.hist, content(l0))
		lv.close()
		in.finished = true
		return
	}
	cur := in.n.s
	var applied []string // operations applied to this live instance since it was built
	for _, p := range alpha {
		in.curOp = p.String()
		in.nilCrash = ""
		pre := cur
		evs, err := in.applyReal(lv.c, p)
		in.checked++
		where := func() string {
			s := fmt.Sprintf("state %v, op %v", pre, p)
			if len(in.n.hist) > 0 {
				s += fmt.Sprintf(" (state built by %v)", in.n.hist)
			}
			if len(applied) > 0 {
				s += fmt.Sprintf(" (same instance already absorbed no-ops %v)", applied)
			}
			return s
		}
		if err != nil {
			in.fail("C01", "error "+shape(pre, p), "%s: returned error %v", where(), err)
		}
		if in.nilCrash != "" {
			in.fail("C01", "crash (filter called with nil object) "+shape(pre, p), "%s: the cache calls filter %s with a nil object, which panics in the cache goroutine", where(), in.nilCrash)
		}
		list, _ := lv.c.List()
		post := content(list)
		succ := pre.apply(p)
		var match *state
		for i := range succ {
			if succ[i].content() == post {
				match = &succ[i]
				break
			}
		}
		conflict := sameVersionConflict(pre, p)
		if conflict {
			in.unspecified++
		}
		if match == nil && !conflict {
			want := succ[0].content()
			if len(succ) > 1 {
				want += " or " + succ[1].content()
			}
			in.fail("C01", "content differs from reference "+shape(pre, p), "%s: cache holds %s, reference says %s", where(), post, want)
		} else if match != nil {
			for k, key := range keys {
				g, _ := lv.c.Get("ns", key)
				want := "<nil>"
				if o, ok := match.get(k); ok {
					want = hx.ObjString(o.real())
				}
				if hx.ObjString(g) != want {
					in.fail("C01", "Get differs from reference "+shape(pre, p), "%s: Get(ns/%s) = %s, reference %s", where(), key, hx.ObjString(g), want)
				}
			}
		}
		nf := int(pre.f)
		if p.kind == "refilter" {
			nf = p.f
		}
		for _, o := range list {
			if !mkFilter(nf).Accept(o) {
				in.fail("C01", "cached object violates filter "+shape(pre, p), "%s: cached object %s does not satisfy the current filter %s", where(), hx.ObjString(o), filterNames[nf])
			}
		}
		in.checkDelta(where, shape(pre, p), pre, evs, list)
		// continue on the same instance only if nothing observable changed
		if match != nil && *match == pre {
			applied = append(applied, p.String())
			if len(applied) > 6 {
				applied = applied[1:]
			}
			continue
		}
		lv.close()
		lv = in.build()
		applied = nil
		cur = in.n.s
	}
	lv.close()
	in.finished = true
}

// checkDelta: replaying evs over the pre content must give the post content, each event well-formed.
func (in *inst) checkDelta(where func() string, shp string, pre state, evs []kcache.Event, post []metav1.Object) {
	type ent struct {
		ver int
		s   string
	}
	cur := map[string]ent{}
	for k := range keys {
		if o, ok := pre.get(k); ok {
			cur[keys[k]] = ent{vnum[o.ver], hx.ObjString(o.real())}
		}
	}
	before := fmt.Sprint(cur)
	for _, e := range evs {
		o := e.Resource()
		name := o.GetName()
		var v int
		if _, err := fmt.Sscanf(o.GetResourceVersion(), "%d", &v); err != nil {
			in.fail("C02", "event with malformed version "+shp, "%s: event %s carries a malformed version", where(), hx.EventString(e))
		}
		c, present := cur[name]
		switch e.Type() {
		case kcache.EventTypeCreate:
			if present {
				in.fail("C02", "Create for present key "+shp, "%s: Create event %s for a key that is present (events %s)", where(), hx.EventString(e), hx.EventsString(evs))
			}
			cur[name] = ent{v, hx.ObjString(o)}
		case kcache.EventTypeUpdate:
			if !present {
				in.fail("C02", "Update for absent key "+shp, "%s: Update event %s for an absent key (events %s)", where(), hx.EventString(e), hx.EventsString(evs))
			} else if v <= c.ver {
				in.fail("C02", "Update not strictly newer "+shp, "%s: Update event %s does not carry a strictly newer version than %s", where(), hx.EventString(e), c.s)
			}
			cur[name] = ent{v, hx.ObjString(o)}
		case kcache.EventTypeDelete:
			if !present {
				in.fail("C02", "Delete for absent key "+shp, "%s: Delete event %s for an absent key (events %s)", where(), hx.EventString(e), hx.EventsString(evs))
			}
			delete(cur, name)
		default:
			in.fail("C02", "unknown event type "+shp, "%s: unknown event type %q", where(), e.Type())
		}
	}
	after := map[string]ent{}
	for _, o := range post {
		var v int
		fmt.Sscanf(o.GetResourceVersion(), "%d", &v)
		after[o.GetName()] = ent{v, hx.ObjString(o)}
	}
	if fmt.Sprint(cur) != fmt.Sprint(after) {
		in.fail("C02", "events are not the delta "+shp, "%s: replaying events %s over the previous content gives %v but the cache holds %v", where(), hx.EventsString(evs), cur, after)
	}
	if before == fmt.Sprint(after) && len(evs) > 0 {
		in.fail("C02", "events without change "+shp, "%s: content unchanged but events %s were emitted", where(), hx.EventsString(evs))
	}
}

func (in *inst) check(r *vs.Result) []string {
	msgs := in.msgs
	if !in.finished && len(msgs) == 0 && in.prop == "C01" {
		msgs = append(msgs, fmt.Sprintf("wedge | state %v: the cache stopped answering during %s; blocked: %v", in.n.s, in.curOp, r.Blocked))
	}
	if in.finished && len(r.Blocked) > 0 && in.prop == "C01" {
		msgs = append(msgs, fmt.Sprintf("leak | goroutines left after the cache was stopped: %v", r.Blocked))
	}
	return msgs
}

var cache = map[string][]node{}
var alphaCache = map[string][]op{}

func Property(id string) runner.Property {
	what := map[string]string{
		"C01": "List/Get equal the reference map semantics (either outcome for a stale delete), every cached object satisfies the filter, no crash (filter called with nil), no wedge",
		"C02": "the returned events replayed in order over the previous content give exactly the new content; Create only on absent keys, Update only on present keys with a strictly newer version, Delete only on present keys; no event when nothing changed",
	}
	return runner.Property{
		ID:    id,
		Level: "model_checking",
		Rule: "explicit-state search: BFS over the reference model from all 5 initial filters with the full operation alphabet (sync/update/refilter over 2 keys x 6 versions {-1,0,1,2,3,x} x 2 labels, lists incl. duplicates and malformed entries, 5 filters incl. a non-comparable FN); every reachable abstract state is rebuilt on a fresh real _cache by its shortest history and every operation is applied through the real request channels; oracle on every transition: " + what[id] +
			". coverage.states = abstract states, coverage.transitions = (state, operation) pairs executed on the real cache",
		Assumptions: []string{
			"reachable set is computed on the reference model; sound because model and implementation are compared on every transition out of every such state (any divergence is reported, so agreement implies equal reachable sets)",
			"objects outside the universe (more keys, other fields) are not covered; random walks over larger universes mentioned in the quantifier are sampling and outside this technique",
			"operations run on the default schedule (the cache is driven sequentially, as its single owner does)",
		},
		Scenarios: func(tier string) []runner.Sc {
			alpha, ok := alphaCache[tier]
			if !ok {
				alpha = alphabet(tier)
				alphaCache[tier] = alpha
				cache[tier] = reachable(alpha)
			}
			nodes := cache[tier]
			var out []runner.Sc
			for i, n := range nodes {
				n := n
				out = append(out, runner.Sc{
					Scenario: explore.Scenario{
						Name: fmt.Sprintf("%s/state%03d/%s", strings.ToLower(id), i, strings.ReplaceAll(n.s.String(), " ", "_")),
						Mode: "D0",
						Cfg:  vs.Config{MaxSteps: 50000000},
						New: func() explore.Instance {
							in := &inst{prop: id, n: n, alpha: alpha}
							return explore.Instance{
								Run: in.run, Check: in.check,
								Outcome: func() string { return fmt.Sprintf("%v checked=%d", n.s, in.checked) },
								Counters: func() map[string]int64 {
									return map[string]int64{"mc_states": 1, "mc_transitions": in.checked, "content_unspecified_same_version_conflict": in.unspecified}
								},
							}
						},
					},
				})
			}
			// what depends on how many objects there are: one long sequence over 300 keys
			out = append(out, bigScenario(id))
			if id == "C02" {
				// public path: the controller and its publishers distribute exactly those events (deviation-bounded)
				// filtered subscriptions: replaying their events over the content read at readiness gives their cache
				// (cheap; before the controller scenarios so that those inherit the unused share of the time budget)
				out = append(out, c06.C02FilterScenarios(tier)...)
				// a mirroring consumer does not diverge because a sibling subscription is closed while events flow
				out = append(out, c05.SiblingScenarios("C02", tier)...)
				out = append(out, c03.C02Controller(tier)...)
			}
			return out
		},
	}
}
