// Package c14: list failures are fail-stop and reported; watch failures are
// never fatal; a deliberate Close reports no failure.  Whole controller against
// the scripted API server; failure kind x position enumerated as scenarios.
package c14

import (
	"fmt"
	"strings"
	"time"

	"verif/harness/ctl"
	"verif/harness/fakeapi"
	"verif/harness/hx"
	"verif/runner"
	"verif/vs"
)

const P = 3 * time.Second

type expect struct {
	listFailAt int    // k-th list fails (0: none)
	cause      string // substring the reported error must contain
	deliberate bool   // the controller is closed deliberately: Error() must be nil
}

func oracle(x expect) func(in *ctl.Inst, r *vs.Result) []string {
	return func(in *ctl.Inst, r *vs.Result) []string {
		var msgs []string
		o := in.O
		desc := in.Desc()
		if o.CreateErr != nil {
			return []string{"create failed | " + o.CreateErr.Error()}
		}
		if !o.ObserverRan {
			return []string{"harness | observer never ran: " + desc}
		}
		if !o.Finished {
			return []string{fmt.Sprintf("shutdown hangs | %s: Done() never closed at the end of the run; blocked %v", desc, ctl.BlockedNames(r))}
		}
		if lb := ctl.LibBlocked(r); len(lb) > 0 {
			msgs = append(msgs, fmt.Sprintf("goroutine leak | %s: %v", desc, lb))
		}
		switch {
		case x.listFailAt > 0:
			if o.Lists < x.listFailAt {
				return msgs // the failing list has not been issued yet at observation time: nothing to demand
			}
			in.Converged = 1
			if !o.DoneAtRead {
				msgs = append(msgs, fmt.Sprintf("list failure not fatal | %s: list #%d failed but the controller keeps running (cache %s)", desc, x.listFailAt, o.CacheAtRead))
				return msgs
			}
			if o.ErrAtRead == "" {
				msgs = append(msgs, fmt.Sprintf("list failure not reported | %s: controller done but Error() is nil", desc))
			} else if !strings.Contains(o.ErrAtRead, x.cause) {
				msgs = append(msgs, fmt.Sprintf("list failure reported without its cause | %s: Error() = %q, expected it to carry %q", desc, o.ErrAtRead, x.cause))
			}
			for p, done := range o.NodeDone {
				if !done {
					msgs = append(msgs, fmt.Sprintf("descendant survives a fatal list failure | %s: node %s is not done", desc, p))
				}
			}
			if x.listFailAt == 1 {
				if o.ReadyAtRead {
					msgs = append(msgs, fmt.Sprintf("ready after a failed first list | %s: controller Ready() closed", desc))
				}
				for p, rdy := range o.NodeReady {
					if rdy {
						msgs = append(msgs, fmt.Sprintf("ready after a failed first list | %s: node %s Ready() closed", desc, p))
					}
				}
			}
		case x.deliberate:
			if o.ErrAfterDone != "" {
				msgs = append(msgs, fmt.Sprintf("deliberate close reports a failure | %s: Error() = %q", desc, o.ErrAfterDone))
			}
			for p, done := range o.NodeDone {
				_ = p
				_ = done
			}
		default:
			// watch failures only
			if o.DoneAtRead {
				msgs = append(msgs, fmt.Sprintf("watch failure is fatal | %s: controller done with %q", desc, o.ErrAtRead))
			} else if !o.ReadyAtRead {
				msgs = append(msgs, fmt.Sprintf("never ready | %s", desc))
			}
			if o.ErrAfterDone != "" {
				msgs = append(msgs, fmt.Sprintf("deliberate close reports a failure | %s: Error() = %q after the final Close", desc, o.ErrAfterDone))
			}
		}
		return msgs
	}
}

func Property() runner.Property {
	return runner.Property{
		ID:          "C14",
		Level:       "fault_enumeration",
		Rule:        "every list failure kind {List error, List error accompanied by an empty list object (client-go typed clients), error wrapping context.Canceled while the context is alive, non-list object, list of non-objects, object without list accessor} at the k-th list (k=1..2 quick, 1..3 thorough) x subscriber tree {bare, subscriber, clone + filtered clone + monitor + deferred subscription}; every watch failure kind {connect error once / forever, close after k frames, status, error, metadata-less frame} ; deliberate Close / context cancel; each scenario explored within d deviations of the default schedule (d=2 quick, 3 thorough) on the whole real controller; oracle at quiescence once the failing list has been issued: Done() closed, Error() carries the cause, every descendant done, nothing ready if the first list failed; watch failures: controller alive and ready; deliberate close: Error() nil; nothing leaks",
		Assumptions: []string{"deviation-bounded whole-system exploration; a case is one (fault scenario, schedule) pair; distinct cases are counted by distinct terminal observations"},
		Scenarios: func(tier string) []runner.Sc {
			d := 2
			ks := []int{1, 2}
			if tier == "thorough" {
				d = 3
				ks = []int{1, 2, 3}
			}
			pre := []ctl.Mut{{Op: "set", Name: "a", Labels: "l=1"}}
			h := []ctl.Mut{{Op: "set", Name: "b", Labels: "l=1"}, {Op: "set", Name: "a", Labels: "l=0"}}
			trees := map[string][]hx.Spec{
				"bare": nil,
				"sub":  {{Kind: "sub"}},
				"tree": {{Kind: "clone", Children: []hx.Spec{{Kind: "sub"}}}, {Kind: "fclone", Filter: 2, Children: []hx.Spec{{Kind: "sub"}}}, {Kind: "mon"}, {Kind: "dsub"}},
			}
			var out []runner.Sc
			mk := func(name string, c ctl.Cfg, x expect) {
				c.Name, c.Period, c.Mode, c.Bound = name, P, "S2", d
				if len(c.Tree) > 1 && c.Bound > 1 {
					c.Bound-- // the 4-branch tree doubles the goroutine count: one deviation less
				}
				out = append(out, ctl.Scenario("C14", c, oracle(x)))
			}
			causes := map[string]string{"error": "injected API failure", "error+list": "injected API failure", "canceled": "context canceled", "nonlist": "Invalid type", "status": "is not a list", "nonobjects": "Invalid type", "nilitem": "Invalid type", "noaccessor": "Invalid type"}
			for _, k := range ks {
				for kind, cause := range causes {
					for tn, tr := range trees {
						if tier != "thorough" && tn == "sub" {
							continue
						}
						mk(fmt.Sprintf("list#%d-%s/%s", k, kind, tn), ctl.Cfg{Pre: pre, Hist: h, Tree: tr, ListFaults: map[int]fakeapi.ListFault{k: {Kind: kind}}, ReadAt: time.Duration(k)*4*time.Second + time.Second}, expect{listFailAt: k, cause: cause})
					}
				}
			}
			W := func(kind string, after int) fakeapi.WatchFault { return fakeapi.WatchFault{Kind: kind, After: after} }
			for _, wf := range []struct {
				name string
				c    ctl.Cfg
			}{
				{"watch-error-once", ctl.Cfg{WatchFaults: map[int]fakeapi.WatchFault{1: W("error", 0)}}},
				{"watch-error-wrapping-context.Canceled", ctl.Cfg{WatchFaults: map[int]fakeapi.WatchFault{1: W("error-canceled", 0)}}},
				{"watch-close@0-then-error-wrapping-context.Canceled", ctl.Cfg{WatchFaults: map[int]fakeapi.WatchFault{1: W("close", 0), 2: W("error-canceled", 0)}}},
				{"watch-error-forever", ctl.Cfg{DefaultWatch: W("error", 0)}},
				{"watch-close@0", ctl.Cfg{WatchFaults: map[int]fakeapi.WatchFault{1: W("close", 0)}}},
				{"watch-close@1", ctl.Cfg{WatchFaults: map[int]fakeapi.WatchFault{1: W("close", 1)}}},
				{"watch-errorframe@0", ctl.Cfg{WatchFaults: map[int]fakeapi.WatchFault{1: W("errorframe", 0)}}},
				{"watch-garbage@1", ctl.Cfg{WatchFaults: map[int]fakeapi.WatchFault{1: W("garbage", 1)}}},
				{"watch-errorframe-obj@0", ctl.Cfg{WatchFaults: map[int]fakeapi.WatchFault{1: W("errorframe-obj", 0)}}},
				{"watch-errorframe-nil@1", ctl.Cfg{WatchFaults: map[int]fakeapi.WatchFault{1: W("errorframe-nil", 1)}}},
				{"watch-status@0", ctl.Cfg{WatchFaults: map[int]fakeapi.WatchFault{1: W("status", 0)}}},
			} {
				c := wf.c
				c.Pre, c.Hist, c.Tree, c.ReadAt = pre, h, trees["tree"], 5*time.Second
				mk(wf.name+"/tree", c, expect{})
			}
			mk("deliberate-close/tree", ctl.Cfg{Pre: pre, Hist: h, Tree: trees["tree"], ReadAt: 5 * time.Second, Close: ctl.CloseSpec{Kind: "close", AfterMut: 1}}, expect{deliberate: true})
			mk("deliberate-close-before-ready/sub", ctl.Cfg{Pre: pre, Hist: h, Tree: trees["sub"], ReadAt: 5 * time.Second, Close: ctl.CloseSpec{Kind: "close", AfterMut: 0}}, expect{deliberate: true})
			return out
		},
	}
}
