#!/bin/bash
# tools/seedverify.sh <outdir> <pkgdir-relative-to-repo> <go test -run regex> [count]
# Confirms a seeded change in a scratch worktree: demo passes without the patch; with it: builds, repository suite passes, demo fails.
set -uo pipefail
export GOFLAGS=-mod=mod GOPROXY=off GOSUMDB=off GOTOOLCHAIN=local
OUT=$1; PKG=$2; RUN=$3; CNT=${4:-1}
W=$(mktemp -d /tmp/sv-XXXXXX); rmdir $W
git -C /repo worktree add -q $W HEAD || exit 2
trap 'git -C /repo worktree remove --force $W >/dev/null 2>&1' EXIT
cp $OUT/*_test.go $W/$PKG/ 2>/dev/null
cd $W
echo -n "without patch: demo "; if go test -vet=off -count=$CNT -run "$RUN" ./$PKG >/tmp/sv.out 2>&1; then echo PASS; else echo "FAIL (unexpected)"; tail -5 /tmp/sv.out; fi
git apply $OUT/patch.diff || { echo "patch does not apply"; exit 2; }
echo -n "with patch: build "; go build ./... >/tmp/sv.out 2>&1 && echo ok || { echo FAIL; tail -5 /tmp/sv.out; }
for f in $OUT/*_test.go; do rm -f $W/$PKG/$(basename $f); done
echo -n "with patch: repository suite "
ok=0
for try in 1 2 3; do
  if go test -vet=off -count=1 ./... >/tmp/sv.out 2>&1; then ok=1; break; fi
done
if [ $ok = 1 ]; then echo "PASS (attempt $try; the suite has 10 ms timing windows that flake under load)"; else echo FAIL; grep -E "^(--- FAIL|FAIL)" /tmp/sv.out | head; fi
cp $OUT/*_test.go $W/$PKG/
echo -n "with patch: demo "; if go test -vet=off -count=$CNT -run "$RUN" ./$PKG >/tmp/sv.out 2>&1; then echo "PASS (unexpected)"; else echo FAIL; fi
