//go:build !vsnative

// Package vs is the controlled runtime: every channel operation, select, go
// statement, close, timer and context operation of the transformed code ends up
// here.  Exactly one goroutine runs at a time; between two operations a
// goroutine only touches goroutine-private state, so the set of executions of
// the program is the set of sequences of transitions chosen by the Chooser.
package vs

import (
	"fmt"
	"os"
	"runtime"
	"runtime/debug"
	"sort"
	"strings"
	"sync/atomic"
	"time"
	"unsafe"
)

// H is a 128-bit hash value.
type H struct{ A, B uint64 }

func (h H) IsZero() bool { return h.A == 0 && h.B == 0 }

func mix64(x uint64) uint64 {
	x ^= x >> 33
	x *= 0xff51afd7ed558ccd
	x ^= x >> 33
	x *= 0xc4ceb9fe1a85ec53
	x ^= x >> 33
	return x
}

// Mix folds values into h.
func Mix(h H, vals ...uint64) H {
	for _, v := range vals {
		h.A = mix64(h.A ^ (v + 0x9e3779b97f4a7c15))
		h.B = mix64(h.B + (v ^ 0xc2b2ae3d27d4eb4f) + (h.A << 1))
	}
	return h
}

func MixH(h H, o H) H { return Mix(h, o.A, o.B) }

func (h H) add(o H) H { return H{h.A + o.A, h.B + o.B} }

func HashString(s string) H {
	h := H{0x1234567, 0x89abcdef}
	for i := 0; i < len(s); i++ {
		h = Mix(h, uint64(s[i]))
	}
	return h
}

type caseDir uint8

const (
	dirRecv caseDir = iota
	dirSend
)

type opKind uint8

const (
	opSelect opKind = iota // one or more channel cases (+default)
	opClose
	opChoose // internal choice of n alternatives
	opLocal  // always-enabled visible step (timer ops, Now, Atomic, ctx ops)
)

// Case is one communication clause of a select.
type Case struct {
	dir caseDir
	ch  *Chan
	val interface{}
}

type op struct {
	kind       opKind
	cases      []Case
	hasDefault bool
	n          int   // opChoose: number of alternatives
	ch         *Chan // opClose
	tag        uint64
	site       string

	// result
	idx      int
	val      interface{}
	ok       bool
	panicMsg string
}

// Chan is the scheduler's model of one channel.
type Chan struct {
	name    string
	hid     H
	cap     int
	buf     []slot
	closed  bool
	closeH  H
	sendSeq uint64
	recvSeq uint64
	auto    bool
	tm      *Timer // channel of a timer
	reply   bool   // cap-1 channel used as a one-shot reply slot (discipline checked at run time)
	nsend   int
	nrecv   int
	wepoch  uint64
	waiters []waiter
}

type slot struct {
	val interface{}
	src H
}

func (c *Chan) String() string {
	if c == nil {
		return "nil"
	}
	return c.name
}

// G is a controlled goroutine.
type G struct {
	seq      int
	name     string
	path     string
	chain    H
	wake     chan struct{}
	pend     *op
	done     bool
	kill     bool
	started  bool
	nspawn   int
	nmake    int
	nops     int
	role     string
	Log      []string // per-goroutine observation log (harness use)
	panicked bool
}

// ChainID identifies the goroutine independently of the schedule.
func (g *G) ChainID() H { return HashString(g.path) }

func (g *G) String() string { return fmt.Sprintf("g%d[%s]", g.seq, g.name) }

type transKind uint8

const (
	tCase transKind = iota
	tRendezvous
	tDefault
	tClose
	tChoose
	tLocal
	tTimer
)

// Trans is one enabled transition.
type Trans struct {
	Kind transKind
	G    *G
	Ci   int
	G2   *G // receiver of a rendezvous
	Cj   int
	Tm   *Timer
}

func (t Trans) Involves(g *G) bool { return g != nil && (t.G == g || t.G2 == g) }

func (t Trans) String() string {
	switch t.Kind {
	case tCase:
		c := t.G.pend.cases[t.Ci]
		d := "recv"
		if c.dir == dirSend {
			d = "send"
		}
		return fmt.Sprintf("%v %s %v @%s", t.G, d, c.ch, t.G.pend.site)
	case tRendezvous:
		c := t.G.pend.cases[t.Ci]
		return fmt.Sprintf("%v => %v on %v @%s / @%s", t.G, t.G2, c.ch, t.G.pend.site, t.G2.pend.site)
	case tDefault:
		return fmt.Sprintf("%v default @%s", t.G, t.G.pend.site)
	case tClose:
		return fmt.Sprintf("%v close %v @%s", t.G, t.G.pend.ch, t.G.pend.site)
	case tChoose:
		return fmt.Sprintf("%v choose %d/%d @%s", t.G, t.Ci, t.G.pend.n, t.G.pend.site)
	case tLocal:
		return fmt.Sprintf("%v local @%s", t.G, t.G.pend.site)
	case tTimer:
		return fmt.Sprintf("timer %s fires at %d", t.Tm.name, t.Tm.deadline)
	}
	return "?"
}

type TimerPolicy int

const (
	TimersIdle    TimerPolicy = iota // time passes only when nothing else can happen
	TimersAnytime                    // a due timer may fire between any two steps
	// TimersLazy explores the same behaviours as TimersAnytime with fewer
	// interleavings: a fire of a channel timer commutes with every transition
	// that neither touches a timer nor reads the clock, so it is only offered
	// when some goroutine is pending at an operation that depends on it (a
	// select on an armed timer's channel, NewTimer/Stop/Reset/Now), when an
	// AfterFunc timer is armed (its fire starts a goroutine whose steps may race
	// with anything), or when nothing else is enabled.
	TimersLazy
)

// Config of one execution.
type Config struct {
	Timers   TimerPolicy
	Timer123 bool  // go1.23 timer channel semantics (Stop/Reset drain)
	Horizon  int64 // timers with a deadline beyond the horizon never fire (0 = no horizon)
	MaxSteps int   // safety cap (0 = 1e6)
	Trace    bool  // record human readable trace
	Bufsiz   int   // > 0: model capacity of the channels whose capacity is the library's EventBufsiz constant
	MapOrder bool  // every map iteration of the transformed code is an explorer choice of rotation (default: canonical order)
}

// Chooser decides which enabled transition is taken.
type Chooser interface {
	// Pick returns the index into en of the transition to take, or -1 to
	// abandon the execution (pruned).
	Pick(s *Sched, en []Trans) int
}

type PanicInfo struct {
	G     string
	Value string
	Stack string
}

// Result of one execution.
type Result struct {
	Steps     int
	Pruned    bool
	StepLimit bool
	Panics    []PanicInfo
	Blocked   []BlockedG // goroutines still pending at quiescence
	AllG      int
	Trace     []string
	Clock     int64
	Final     H
	Failures  []string // recorded by harness through Fail()
}

type BlockedG struct {
	Name string
	Role string
	Site string
	Path string
}

// Sched is one execution.
type Sched struct {
	cfg      Config
	chooser  Chooser
	gs       []*G
	cur      *G
	runq     []*G
	chans    map[unsafe.Pointer]*Chan
	yield    chan struct{}
	aborting bool
	steps    int
	clock    int64
	timers   []*Timer
	res      *Result
	autoN    int
	ptrs     map[unsafe.Pointer]string
	objs     map[interface{}]*Obj
	last     *G
	fp       H // commutative sum over goroutine chains (maintained incrementally)
	extra    H // timers + clock + objects contributions are folded at query time
	en       []Trans
	waitR    map[*Chan][]waiter
	stop     bool
	epoch    uint64
	esteps   int
	heart    *uint64
	Values   map[string]interface{} // harness scratch, reset per execution
}

type waiter struct {
	g  *G
	ci int
}

var current *Sched

// Cur returns the running execution (nil outside Execute).
func Cur() *Sched { return current }

var heartbeat uint64
var watchdogOnce int32

// EngineError aborts the process with exit code 2: the engine itself is
// broken or met something it cannot model.  Never a property violation.
func EngineError(format string, args ...interface{}) {
	fmt.Fprintf(os.Stderr, "ENGINE-ERROR: "+format+"\n", args...)
	fmt.Fprintf(os.Stderr, "%s\n", debug.Stack())
	os.Exit(2)
}

func startWatchdog() {
	if !atomic.CompareAndSwapInt32(&watchdogOnce, 0, 1) {
		return
	}
	go func() {
		lastBeat := atomic.LoadUint64(&heartbeat)
		stuck := 0
		for {
			time.Sleep(2 * time.Second)
			b := atomic.LoadUint64(&heartbeat)
			if b == lastBeat && atomic.LoadInt32(&running) == 1 {
				stuck++
				if stuck >= 15 {
					buf := make([]byte, 1<<20)
					n := runtime.Stack(buf, true)
					fmt.Fprintf(os.Stderr, "ENGINE-ERROR: watchdog: no scheduling step for 30s; a goroutine blocked outside the shim\n%s\n", buf[:n])
					os.Exit(2)
				}
			} else {
				stuck = 0
			}
			lastBeat = b
		}
	}()
}

var running int32

// Execute runs root under the control of chooser and returns what happened.
func Execute(cfg Config, chooser Chooser, root func()) *Result {
	startWatchdog()
	if cfg.MaxSteps == 0 {
		cfg.MaxSteps = 1000000
	}
	s := &Sched{
		cfg:     cfg,
		chooser: chooser,
		chans:   make(map[unsafe.Pointer]*Chan),
		yield:   make(chan struct{}),
		res:     &Result{},
		ptrs:    make(map[unsafe.Pointer]string),
		objs:    make(map[interface{}]*Obj),
		waitR:   make(map[*Chan][]waiter),
		Values:  make(map[string]interface{}),
	}
	if current != nil {
		EngineError("nested Execute")
	}
	current = s
	mapOrderChoice = cfg.MapOrder
	atomic.StoreInt32(&running, 1)
	defer func() {
		atomic.StoreInt32(&running, 0)
		current = nil
	}()
	s.spawn(nil, "root", root)
	s.loop()
	return s.res
}

func (s *Sched) spawn(parent *G, name string, fn func()) *G {
	g := &G{seq: len(s.gs), name: name, wake: make(chan struct{})}
	if parent == nil {
		g.path = "0"
		g.chain = HashString("root")
	} else {
		g.path = fmt.Sprintf("%s.%d", parent.path, parent.nspawn)
		g.chain = Mix(parent.chain, 0x60, uint64(parent.nspawn))
		parent.nspawn++
		g.role = parent.role
	}
	s.fp = s.fp.add(g.chain)
	s.gs = append(s.gs, g)
	s.runq = append(s.runq, g)
	go s.gmain(g, fn)
	return g
}

func (s *Sched) gmain(g *G, fn func()) {
	<-g.wake
	defer func() {
		if r := recover(); r != nil {
			if !s.aborting {
				g.panicked = true
				s.res.Panics = append(s.res.Panics, PanicInfo{G: g.String(), Value: fmt.Sprint(r), Stack: string(debug.Stack())})
			}
		}
		g.done = true
		g.pend = nil
		s.yield <- struct{}{}
	}()
	if g.kill {
		return
	}
	g.started = true
	fn()
}

func (s *Sched) loop() {
	for {
		for len(s.runq) > 0 {
			g := s.runq[0]
			s.runq = s.runq[1:]
			s.cur = g
			atomic.AddUint64(&heartbeat, 1)
			g.wake <- struct{}{}
			<-s.yield
			if len(s.res.Panics) > 0 {
				s.finish()
				return
			}
		}
		s.cur = nil
		if s.stop {
			break
		}
		if t, ok := s.eager(); ok {
			if s.cfg.Trace {
				s.res.Trace = append(s.res.Trace, fmt.Sprintf("%4d [eager] %s", s.steps, t.String()))
			}
			s.applyChecked(t)
			s.steps++
			s.esteps++
			if s.steps >= s.cfg.MaxSteps {
				s.res.StepLimit = true
				break
			}
			continue
		}
		en := s.enabled()
		if len(en) == 0 {
			break
		}
		i := s.chooser.Pick(s, en)
		if i < 0 {
			s.res.Pruned = true
			break
		}
		if i >= len(en) {
			EngineError("chooser picked %d of %d enabled transitions (replay divergence)", i, len(en))
		}
		if s.cfg.Trace {
			s.res.Trace = append(s.res.Trace, fmt.Sprintf("%4d [%d/%d] %s", s.steps, i, len(en), en[i].String()))
		}
		s.applyChecked(en[i])
		s.steps++
		if s.steps >= s.cfg.MaxSteps {
			s.res.StepLimit = true
			break
		}
	}
	s.finish()
}

func (s *Sched) finish() {
	s.res.Steps = s.steps
	s.res.Clock = s.clock
	s.res.AllG = len(s.gs)
	s.res.Final = s.Fingerprint()
	for _, g := range s.gs {
		if !g.done && g.pend != nil {
			s.res.Blocked = append(s.res.Blocked, BlockedG{Name: g.name, Role: g.role, Site: g.pend.site, Path: g.path})
		}
	}
	// unwind everything that is still alive
	s.aborting = true
	for _, g := range s.gs {
		if g.done {
			continue
		}
		g.kill = true
		s.cur = g
		atomic.AddUint64(&heartbeat, 1)
		g.wake <- struct{}{}
		<-s.yield
	}
	s.cur = nil
}

// Stop ends the execution after the current goroutine parks (harness use).
func (s *Sched) Stop() { s.stop = true }

// do parks the running goroutine at operation o and returns once the
// scheduler has executed a transition that completes it.
func (s *Sched) do(o *op) {
	if s.aborting {
		o.idx = -2
		return
	}
	g := s.cur
	if g == nil {
		EngineError("vs operation outside a controlled goroutine")
	}
	if s.cfg.Trace && o.site == "" {
		o.site = callerSite()
	}
	g.pend = o
	s.yield <- struct{}{}
	<-g.wake
	if g.kill {
		runtime.Goexit()
	}
	g.pend = nil
	if o.panicMsg != "" {
		panic(o.panicMsg)
	}
}

func callerSite() string {
	var pcs [12]uintptr
	n := runtime.Callers(3, pcs[:])
	frames := runtime.CallersFrames(pcs[:n])
	for {
		f, more := frames.Next()
		if !strings.Contains(f.File, "/verif/vs/") {
			file := f.File
			if i := strings.LastIndex(file, "/"); i >= 0 {
				file = file[i+1:]
			}
			return fmt.Sprintf("%s:%d", file, f.Line)
		}
		if !more {
			break
		}
	}
	return "?"
}

func (s *Sched) enabled() []Trans {
	en := s.en[:0]
	// index receivers on unbuffered channels
	s.epoch++
	for _, g := range s.gs {
		o := g.pend
		if g.done || o == nil || o.kind != opSelect {
			continue
		}
		for ci := range o.cases {
			c := &o.cases[ci]
			if ch := c.ch; ch != nil && c.dir == dirRecv && ch.cap == 0 && !ch.closed {
				if ch.wepoch != s.epoch {
					ch.wepoch = s.epoch
					ch.waiters = ch.waiters[:0]
				}
				ch.waiters = append(ch.waiters, waiter{g, ci})
			}
		}
	}
	for _, g := range s.gs {
		o := g.pend
		if g.done || o == nil {
			continue
		}
		switch o.kind {
		case opClose:
			en = append(en, Trans{Kind: tClose, G: g})
		case opChoose:
			for k := 0; k < o.n; k++ {
				en = append(en, Trans{Kind: tChoose, G: g, Ci: k})
			}
		case opLocal:
			en = append(en, Trans{Kind: tLocal, G: g})
		case opSelect:
			ready := false
			for ci := range o.cases {
				c := &o.cases[ci]
				ch := c.ch
				if ch == nil {
					continue
				}
				if c.dir == dirSend {
					switch {
					case ch.closed:
						en = append(en, Trans{Kind: tCase, G: g, Ci: ci})
						ready = true
					case ch.cap > 0:
						if len(ch.buf) < ch.cap {
							en = append(en, Trans{Kind: tCase, G: g, Ci: ci})
							ready = true
						}
					default:
						if ch.wepoch != s.epoch {
							break
						}
						for _, w := range ch.waiters {
							if w.g != g {
								en = append(en, Trans{Kind: tRendezvous, G: g, Ci: ci, G2: w.g, Cj: w.ci})
							}
						}
					}
				} else {
					if len(ch.buf) > 0 || ch.closed {
						en = append(en, Trans{Kind: tCase, G: g, Ci: ci})
						ready = true
					}
				}
			}
			if o.hasDefault && !ready {
				en = append(en, Trans{Kind: tDefault, G: g})
			}
		}
	}
	// timers
	nonTimer := len(en)
	if s.cfg.Timers == TimersAnytime || nonTimer == 0 || (s.cfg.Timers == TimersLazy && s.timerDependentPending()) {
		var earliest int64 = -1
		for _, tm := range s.timers {
			if tm.active && (earliest < 0 || tm.deadline < earliest) {
				earliest = tm.deadline
			}
		}
		if earliest >= 0 && (s.cfg.Horizon == 0 || earliest <= s.cfg.Horizon) {
			for _, tm := range s.timers {
				if tm.active && tm.deadline == earliest && (!tm.idleOnly || nonTimer == 0) {
					en = append(en, Trans{Kind: tTimer, Tm: tm})
				}
			}
		}
	}
	s.en = en
	return en
}

// NoEager disables the persistent-singleton reductions (self-test differential).
var NoEager = os.Getenv("VS_NO_EAGER") != ""

// eager returns a transition that is independent of every transition any
// other goroutine can take now or later, so that exploring it alone is a
// persistent set (DESIGN.md 2.3a):
//   - R-closed: a one-case receive on a closed and empty channel;
//   - R-reply: the single send into / single receive from a one-shot reply slot
//     (cap-1 channel with at most one send, one receive, no close, no observer;
//     the discipline is enforced by replyCheck, a breach is an engine error).
func (s *Sched) eager() (Trans, bool) {
	if NoEager {
		return Trans{}, false
	}
	for _, g := range s.gs {
		o := g.pend
		if g.done || o == nil || o.kind != opSelect || o.hasDefault || len(o.cases) != 1 {
			continue
		}
		c := &o.cases[0]
		ch := c.ch
		if ch == nil {
			continue
		}
		if c.dir == dirRecv {
			if len(ch.buf) == 0 && ch.closed {
				return Trans{Kind: tCase, G: g, Ci: 0}, true
			}
			if ch.reply && len(ch.buf) > 0 {
				return Trans{Kind: tCase, G: g, Ci: 0}, true
			}
		} else if ch.reply && !ch.closed && len(ch.buf) < ch.cap {
			return Trans{Kind: tCase, G: g, Ci: 0}, true
		}
	}
	return Trans{}, false
}

func (s *Sched) replyBreach(ch *Chan, what string) {
	if ch.reply && !NoEager {
		// not an error of the code under test: the reduction's premise does not hold for this tree.
		// Exit code 3 makes the runner start over with the reduction switched off.
		fmt.Fprintf(os.Stderr, "REDUCTION-OFF: channel %s (cap 1) was treated as a one-shot reply slot but %s\n", ch.name, what)
		os.Exit(3)
	}
}

// timerDependentPending: is some goroutine pending at an operation whose
// outcome depends on whether a timer fires first?
func (s *Sched) timerDependentPending() bool {
	anyActive := false
	for _, tm := range s.timers {
		if tm.active {
			anyActive = true
			if tm.fn != nil {
				return true
			}
		}
	}
	if !anyActive {
		return false
	}
	for _, g := range s.gs {
		o := g.pend
		if g.done || o == nil {
			continue
		}
		switch o.kind {
		case opLocal:
			if o.tag >= 0x7001 && o.tag <= 0x7004 {
				return true
			}
		case opSelect:
			for ci := range o.cases {
				if ch := o.cases[ci].ch; ch != nil && ch.tm != nil && ch.tm.active {
					return true
				}
			}
		}
	}
	return false
}

func (s *Sched) resume(g *G) {
	s.runq = append(s.runq, g)
	s.last = g
}

func (s *Sched) bump(g *G, vals ...uint64) {
	old := g.chain
	g.chain = Mix(g.chain, vals...)
	g.nops++
	s.fp = H{s.fp.A - old.A + g.chain.A, s.fp.B - old.B + g.chain.B}
}

func (s *Sched) applyChecked(t Trans) {
	if !checkPeek {
		s.apply(t)
		return
	}
	want, _ := s.PeekKey(t)
	desc := t.String()
	s.apply(t)
	if got := s.Fingerprint(); got != want {
		EngineError("PeekKey disagrees with apply for transition %s", desc)
	}
}

func (s *Sched) apply(t Trans) {
	switch t.Kind {
	case tCase:
		g := t.G
		o := g.pend
		c := &o.cases[t.Ci]
		ch := c.ch
		o.idx = t.Ci
		if c.dir == dirSend {
			if ch.closed {
				o.panicMsg = "send on closed channel"
				s.bump(g, 0x11, uint64(t.Ci))
			} else {
				ch.sendSeq++
				ch.nsend++
				if ch.reply && ch.nsend > 1 {
					s.replyBreach(ch, "received a second send")
				}
				s.bump(g, 0x12, uint64(t.Ci), ch.hid.A, ch.hid.B, ch.sendSeq)
				ch.buf = append(ch.buf, slot{c.val, g.chain})
			}
		} else {
			if len(ch.buf) > 0 {
				sl := ch.buf[0]
				ch.buf = ch.buf[1:]
				ch.recvSeq++
				ch.nrecv++
				if ch.reply && ch.nrecv > 1 {
					s.replyBreach(ch, "was received from twice")
				}
				o.val, o.ok = sl.val, true
				s.bump(g, 0x13, uint64(t.Ci), ch.hid.A, ch.hid.B, ch.recvSeq, sl.src.A, sl.src.B)
			} else {
				// closed and empty
				o.val, o.ok = nil, false
				s.bump(g, 0x14, uint64(t.Ci), ch.hid.A, ch.hid.B, ch.closeH.A, ch.closeH.B)
			}
		}
		s.resume(g)
	case tRendezvous:
		sg, rg := t.G, t.G2
		so, ro := sg.pend, rg.pend
		c := &so.cases[t.Ci]
		so.idx = t.Ci
		ro.idx = t.Cj
		ro.val, ro.ok = c.val, true
		sc, rc := sg.chain, rg.chain
		s.bump(sg, 0x15, uint64(t.Ci), c.ch.hid.A, c.ch.hid.B, rc.A, rc.B)
		s.bump(rg, 0x16, uint64(t.Cj), c.ch.hid.A, c.ch.hid.B, sc.A, sc.B)
		s.resume(sg)
		s.resume(rg)
	case tDefault:
		g := t.G
		o := g.pend
		o.idx = -1
		vals := []uint64{0x17}
		for ci := range o.cases {
			if ch := o.cases[ci].ch; ch != nil {
				vals = append(vals, ch.hid.A, ch.sendSeq, ch.recvSeq)
				if ch.reply {
					s.replyBreach(ch, "is observed by a select with default")
				}
			}
		}
		s.bump(g, vals...)
		s.resume(g)
	case tClose:
		g := t.G
		o := g.pend
		ch := o.ch
		switch {
		case ch == nil:
			o.panicMsg = "close of nil channel"
			s.bump(g, 0x18)
		case ch.closed:
			o.panicMsg = "close of closed channel"
			s.bump(g, 0x19, ch.hid.A, ch.hid.B)
		default:
			if ch.reply {
				s.replyBreach(ch, "was closed")
			}
			ch.closed = true
			s.bump(g, 0x1a, ch.hid.A, ch.hid.B, ch.sendSeq)
			ch.closeH = g.chain
		}
		s.resume(g)
	case tChoose:
		g := t.G
		g.pend.idx = t.Ci
		s.bump(g, 0x1b, uint64(t.Ci))
		s.resume(g)
	case tLocal:
		g := t.G
		s.bump(g, 0x1c, g.pend.tag)
		s.resume(g)
	case tTimer:
		s.fire(t.Tm)
	}
}

// PeekKey returns the fingerprint the global state will have right after
// transition t has been applied (before the resumed goroutines run their local
// code, which is a deterministic function of that state), and the goroutine
// that will count as "last".  It mutates nothing.  The label formulas mirror
// apply(); VS_CHECK_PEEK=1 asserts the agreement on every step.
func (s *Sched) PeekKey(t Trans) (H, *G) {
	fp := s.fp
	sub := func(g *G, n H) {
		fp = H{fp.A - g.chain.A + n.A, fp.B - g.chain.B + n.B}
	}
	clock := s.clock
	var tmMod *Timer
	var tmHash H
	last := t.G
	switch t.Kind {
	case tCase:
		g := t.G
		c := &g.pend.cases[t.Ci]
		ch := c.ch
		if c.dir == dirSend {
			if ch.closed {
				sub(g, Mix(g.chain, 0x11, uint64(t.Ci)))
			} else {
				sub(g, Mix(g.chain, 0x12, uint64(t.Ci), ch.hid.A, ch.hid.B, ch.sendSeq+1))
			}
		} else if len(ch.buf) > 0 {
			sl := ch.buf[0]
			sub(g, Mix(g.chain, 0x13, uint64(t.Ci), ch.hid.A, ch.hid.B, ch.recvSeq+1, sl.src.A, sl.src.B))
		} else {
			sub(g, Mix(g.chain, 0x14, uint64(t.Ci), ch.hid.A, ch.hid.B, ch.closeH.A, ch.closeH.B))
		}
	case tRendezvous:
		sg, rg := t.G, t.G2
		ch := sg.pend.cases[t.Ci].ch
		sc, rc := sg.chain, rg.chain
		sub(sg, Mix(sc, 0x15, uint64(t.Ci), ch.hid.A, ch.hid.B, rc.A, rc.B))
		sub(rg, Mix(rc, 0x16, uint64(t.Cj), ch.hid.A, ch.hid.B, sc.A, sc.B))
		last = rg
	case tDefault:
		g := t.G
		vals := []uint64{0x17}
		for ci := range g.pend.cases {
			if ch := g.pend.cases[ci].ch; ch != nil {
				vals = append(vals, ch.hid.A, ch.sendSeq, ch.recvSeq)
			}
		}
		sub(g, Mix(g.chain, vals...))
	case tClose:
		g := t.G
		ch := g.pend.ch
		switch {
		case ch == nil:
			sub(g, Mix(g.chain, 0x18))
		case ch.closed:
			sub(g, Mix(g.chain, 0x19, ch.hid.A, ch.hid.B))
		default:
			sub(g, Mix(g.chain, 0x1a, ch.hid.A, ch.hid.B, ch.sendSeq))
		}
	case tChoose:
		sub(t.G, Mix(t.G.chain, 0x1b, uint64(t.Ci)))
	case tLocal:
		sub(t.G, Mix(t.G.chain, 0x1c, t.G.pend.tag))
	case tTimer:
		tm := t.Tm
		if tm.deadline > clock {
			clock = tm.deadline
		}
		h2 := Mix(tm.h, 0x72, uint64(tm.fires+1), uint64(clock))
		tmMod = tm
		tmHash = Mix(tm.hid, h2.A, h2.B, 0)
		if tm.fn != nil {
			fp = fp.add(Mix(tm.hid, 0x73, uint64(tm.fires+1), h2.A))
		}
		last = s.last
	}
	h := Mix(fp, uint64(clock))
	var ts H
	for _, tm := range s.timers {
		if tm == tmMod {
			ts = ts.add(tmHash)
		} else {
			ts = ts.add(tm.stateHash())
		}
	}
	h = MixH(h, ts)
	var o H
	for _, ob := range s.objs {
		o = o.add(Mix(ob.hid, ob.h.A, ob.h.B))
	}
	h = MixH(h, o)
	return h, last
}

var checkPeek = os.Getenv("VS_CHECK_PEEK") != ""

// Fingerprint identifies the global state reached by the executed prefix: it
// is a function of the partial order of events only (see DESIGN.md 2.3a).
func (s *Sched) Fingerprint() H {
	h := s.fp
	h = Mix(h, uint64(s.clock))
	var t H
	for _, tm := range s.timers {
		t = t.add(tm.stateHash())
	}
	h = MixH(h, t)
	var o H
	for _, ob := range s.objs {
		o = o.add(Mix(ob.hid, ob.h.A, ob.h.B))
	}
	h = MixH(h, o)
	return h
}

func (s *Sched) Steps() int     { return s.steps }
func (s *Sched) Last() *G       { return s.last }
func (s *Sched) Clock() int64   { return s.clock }
func (s *Sched) Config() Config { return s.cfg }

// chanFor returns the model of the channel whose runtime pointer is p.
func (s *Sched) chanFor(p unsafe.Pointer, capacity int) *Chan {
	if p == nil {
		return nil
	}
	if c, ok := s.chans[p]; ok {
		return c
	}
	// first seen at an operation: created outside the transformed code
	s.autoN++
	c := &Chan{name: fmt.Sprintf("auto%d", s.autoN), cap: capacity, auto: true}
	c.hid = Mix(HashString("auto"), uint64(s.autoN))
	s.chans[p] = c
	return c
}

func (s *Sched) register(p unsafe.Pointer, capacity int, label string) *Chan {
	g := s.cur
	var c *Chan
	if g == nil {
		EngineError("MakeChan outside controlled goroutine")
	}
	c = &Chan{name: fmt.Sprintf("ch%s#%d%s", g.path, g.nmake, label), cap: capacity, reply: capacity == 1 && label == ""}
	c.hid = Mix(g.chain, 0x70, uint64(g.nmake))
	g.nmake++
	s.chans[p] = c
	return c
}

// GoroutineTable lists every goroutine of the execution in creation order.
type GInfo struct {
	Seq     int
	Name    string
	Path    string
	Role    string
	Done    bool
	Site    string
	Started bool
}

func (s *Sched) Goroutines() []GInfo {
	out := make([]GInfo, 0, len(s.gs))
	for _, g := range s.gs {
		gi := GInfo{Seq: g.seq, Name: g.name, Path: g.path, Role: g.role, Done: g.done, Started: g.started}
		if g.pend != nil {
			gi.Site = g.pend.site
		}
		out = append(out, gi)
	}
	return out
}

// LiveCensus returns the sorted multiset of names of goroutines that are not done.
func (s *Sched) LiveCensus() []string {
	var out []string
	for _, g := range s.gs {
		if !g.done {
			out = append(out, g.role+":"+g.name)
		}
	}
	sort.Strings(out)
	return out
}
