//go:build !vsnative

// Package vctx stands in for package context in transformed code: Done()
// channels are owned by the scheduler and cancellation is a sequence of
// visible close operations.
package vctx

import (
	"context"
	"time"

	"verif/vs"
)

type Context = context.Context
type CancelFunc = context.CancelFunc

var Canceled = context.Canceled
var DeadlineExceeded = context.DeadlineExceeded

func Background() Context { return context.Background() }
func TODO() Context       { return context.TODO() }

func WithValue(parent Context, key, val interface{}) Context {
	return context.WithValue(parent, key, val)
}

type node struct {
	parent   Context
	done     chan struct{}
	err      error
	children []*node
	canceled bool
}

func (n *node) Deadline() (time.Time, bool)       { return time.Time{}, false }
func (n *node) Done() <-chan struct{}             { return n.done }
func (n *node) Err() error                        { return n.err }
func (n *node) Value(key interface{}) interface{} { return n.parent.Value(key) }

type nodeKeyT struct{}

var nodeKey nodeKeyT

// find the nearest controlled ancestor (value contexts may sit in between)
func nearest(ctx Context) *node {
	if n, ok := ctx.(*node); ok {
		return n
	}
	if v := ctx.Value(&nodeKey); v != nil {
		return v.(*node)
	}
	return nil
}

func (n *node) valueSelf(key interface{}) interface{} {
	if key == &nodeKey {
		return n
	}
	return n.parent.Value(key)
}

type nodeCtx struct{ *node }

func (n nodeCtx) Value(key interface{}) interface{} { return n.node.valueSelf(key) }

func WithCancel(parent Context) (Context, CancelFunc) {
	n := &node{parent: parent, done: vs.Make(make(chan struct{}))}
	vs.RegisterObj(n)
	pn := nearest(parent)
	if pn == nil {
		if parent.Done() != nil {
			vs.EngineError("vctx: parent context is cancelable but not controlled")
		}
	} else {
		already := false
		vs.Atomic(pn, func() {
			if pn.canceled {
				already = true
			} else {
				pn.children = append(pn.children, n)
			}
		})
		if already {
			n.cancel(pn.err)
		}
	}
	return nodeCtx{n}, func() { n.cancel(context.Canceled) }
}

func (n *node) cancel(err error) {
	var kids []*node
	first := false
	vs.Atomic(n, func() {
		if !n.canceled {
			n.canceled = true
			n.err = err
			first = true
			kids = n.children
			n.children = nil
		}
	})
	if !first {
		return
	}
	vs.CloseRW(n.done)
	for _, k := range kids {
		k.cancel(err)
	}
}

// WithTimeout / WithDeadline: a cancelable node plus a virtual-time timer whose expiry cancels it with
// DeadlineExceeded (the expiry is a goroutine of its own, as in the runtime).  Deadline() keeps reporting "none".
func WithTimeout(parent Context, d time.Duration) (Context, CancelFunc) {
	ctx, cancel := WithCancel(parent)
	n := ctx.(nodeCtx).node
	if vs.Cur() == nil {
		// transformed code running outside a controlled execution (the sequential checks): real time
		rt := time.AfterFunc(d, func() { n.cancel(context.DeadlineExceeded) })
		return ctx, func() {
			rt.Stop()
			cancel()
		}
	}
	t := vs.AfterFunc(d, func() { n.cancel(context.DeadlineExceeded) })
	return ctx, func() {
		t.Stop()
		cancel()
	}
}

func WithDeadline(parent Context, deadline time.Time) (Context, CancelFunc) {
	if vs.Cur() == nil {
		return WithTimeout(parent, time.Until(deadline))
	}
	return WithTimeout(parent, deadline.Sub(vs.Now()))
}
