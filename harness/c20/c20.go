// Package c20: typed packages and generated joins are faithful instances of
// the generic core.  Behaviour: the same scenario - tree {Subscribe,
// SubscribeWithFilter, CloneForFilter+Refilter+Subscribe, monitor}, a history
// that contains an object of a foreign type - runs on the untyped core and on
// each of the 12 typed wrappers over the same kind of base; typed observations
// must equal the untyped ones restricted to the type.  The source-level and
// client clauses are decided by seq/c20static (finite, completely enumerated).
package c20

import (
	"fmt"
	"strings"
	"time"

	"github.com/boz/kcache"
	"github.com/boz/kcache/filter"
	corev1 "k8s.io/api/core/v1"
	metav1 "k8s.io/apimachinery/pkg/apis/meta/v1"

	"verif/explore"
	"verif/harness/hx"
	"verif/runner"
	"verif/seq/c20static"
	"verif/vs"
)

type adapter struct {
	name string
	mk   func(ns, name, rv, labels string) metav1.Object
	run  func(base kcache.Controller, o *obs)
	// stalled: one Subscribe whose consumer reads nothing until o.release is closed
	stalled func(base kcache.Controller, o *obs)
	// reuse: two handlers from ONE handler builder (callbacks replaced in between), one monitor each
	reuse func(base kcache.Controller, o *obs)
}

var adapters []adapter

// obs is what one (typed or untyped) instance of the tree observed.
type obs struct {
	errs                                     []string
	sub, fsub, cloneSub, calls               []string
	subList, fsubList, cloneList, getForeign string
	subReady, fsubReady, cloneReady          bool
	readers                                  []func()
	closers                                  []func()
	dones                                    []func() <-chan struct{}
	doneAfterClose                           []bool
	reuse1, reuse2                           []string // callbacks received by the first / second handler of a reused builder
	afterStop                                []func() // reads issued once the base has shut down
	readsAfterStop                           string
	release                                  chan struct{}
	stalled                                  []string
	stalledClosed                            bool
	// the remaining constructors (Clone, CloneWithFilter + monitor, SubscribeForFilter), by part name
	extra      map[string][]string
	extraLists map[string]string
}

func (o *obs) add(key, s string) {
	if o.extra == nil {
		o.extra = map[string][]string{}
	}
	o.extra[key] = append(o.extra[key], s)
}

func (o *obs) setList(key, list string, ready bool) {
	if o.extraLists == nil {
		o.extraLists = map[string]string{}
	}
	o.extraLists[key] = fmt.Sprintf("%s ready=%v", list, ready)
}

func reuseUntyped(base kcache.Controller, o *obs) {
	rec := func(into *[]string, k string) func(metav1.Object) {
		return func(r metav1.Object) { *into = append(*into, k+":"+hx.ObjString(r)) }
	}
	b := kcache.BuildHandler().OnCreate(rec(&o.reuse1, "create")).OnUpdate(rec(&o.reuse1, "update")).OnDelete(rec(&o.reuse1, "delete"))
	h1 := b.Create()
	h2 := b.OnCreate(rec(&o.reuse2, "create")).OnUpdate(rec(&o.reuse2, "update")).OnDelete(rec(&o.reuse2, "delete")).Create()
	for _, h := range []kcache.Handler{h1, h2} {
		if m, err := kcache.NewMonitor(base, h); err != nil {
			o.errs = append(o.errs, "NewMonitor:"+err.Error())
		} else {
			o.closers = append(o.closers, m.Close)
		}
	}
}

func stalledUntyped(base kcache.Controller, o *obs) {
	sub, err := base.Subscribe()
	if err != nil {
		o.errs = append(o.errs, "Subscribe:"+err.Error())
		return
	}
	<-sub.Ready()
	go func() {
		<-o.release
		for e := range sub.Events() {
			o.stalled = append(o.stalled, hx.EventString(e))
		}
		o.stalledClosed = true
	}()
	o.closers = append(o.closers, sub.Close)
	o.dones = append(o.dones, sub.Done)
}

// runUntyped is the same tree on the untyped core.
func runUntyped(base kcache.Controller, o *obs) {
	render := func(e kcache.Event) string { return hx.EventString(e) }
	if sub, err := base.Subscribe(); err != nil {
		o.errs = append(o.errs, "Subscribe:"+err.Error())
	} else {
		go func() {
			for e := range sub.Events() {
				o.sub = append(o.sub, render(e))
			}
		}()
		o.readers = append(o.readers, func() {
			l, _ := sub.Cache().List()
			o.subList = hx.ListString(l)
			o.subReady = hx.IsClosed(sub.Ready())
		})
		o.afterStop = append(o.afterStop, func() {
			_, err := sub.Cache().Get("ns", "a")
			_, err2 := sub.Cache().List()
			o.readsAfterStop = fmt.Sprintf("Get: %v; List: %v", err, err2)
		})
	}
	if fs, err := base.SubscribeWithFilter(hx.MkFilter(2)); err != nil {
		o.errs = append(o.errs, "SubscribeWithFilter:"+err.Error())
	} else {
		go func() {
			for e := range fs.Events() {
				o.fsub = append(o.fsub, render(e))
			}
		}()
		o.readers = append(o.readers, func() {
			l, _ := fs.Cache().List()
			o.fsubList = hx.ListString(l)
			o.fsubReady = hx.IsClosed(fs.Ready())
		})
	}
	if fc, err := base.CloneForFilter(); err != nil {
		o.errs = append(o.errs, "CloneForFilter:"+err.Error())
	} else {
		if err := fc.Refilter(hx.MkFilter(2)); err != nil {
			o.errs = append(o.errs, "Refilter:"+err.Error())
		}
		if s2, err := fc.Subscribe(); err == nil {
			go func() {
				for e := range s2.Events() {
					o.cloneSub = append(o.cloneSub, render(e))
				}
			}()
		}
		o.readers = append(o.readers, func() {
			l, _ := fc.Cache().List()
			o.cloneList = hx.ListString(l)
			o.cloneReady = hx.IsClosed(fc.Ready())
		})
		o.closers = append(o.closers, fc.Close)
		o.dones = append(o.dones, fc.Done)
	}
	h := kcache.BuildHandler().
		OnInitialize(func(l []metav1.Object) { o.calls = append(o.calls, "init:"+hx.ListString(l)) }).
		OnCreate(func(r metav1.Object) { o.calls = append(o.calls, "create:"+hx.ObjString(r)) }).
		OnUpdate(func(r metav1.Object) { o.calls = append(o.calls, "update:"+hx.ObjString(r)) }).
		OnDelete(func(r metav1.Object) { o.calls = append(o.calls, "delete:"+hx.ObjString(r)) }).Create()
	if m, err := kcache.NewMonitor(base, h); err != nil {
		o.errs = append(o.errs, "NewMonitor:"+err.Error())
	} else {
		o.closers = append(o.closers, m.Close)
		o.dones = append(o.dones, m.Done)
	}
	// the remaining constructors, as in the typed tree
	stream := func(key string, ch <-chan kcache.Event) {
		go func() {
			for e := range ch {
				o.add(key, render(e))
			}
		}()
	}
	if cl, err := base.Clone(); err != nil {
		o.errs = append(o.errs, "Clone:"+err.Error())
	} else {
		if s, err := cl.Subscribe(); err == nil {
			stream("clone>sub", s.Events())
		}
		o.readers = append(o.readers, func() {
			l, _ := cl.Cache().List()
			o.setList("clone", hx.ListString(l), hx.IsClosed(cl.Ready()))
		})
	}
	if fc2, err := base.CloneWithFilter(hx.MkFilter(2)); err != nil {
		o.errs = append(o.errs, "CloneWithFilter:"+err.Error())
	} else {
		if s, err := fc2.Subscribe(); err == nil {
			stream("fclone>sub", s.Events())
		}
		hm := kcache.BuildHandler().
			OnInitialize(func(l []metav1.Object) { o.add("fclone.mon", "init:"+hx.ListString(l)) }).
			OnCreate(func(r metav1.Object) { o.add("fclone.mon", "create:"+hx.ObjString(r)) }).
			OnUpdate(func(r metav1.Object) { o.add("fclone.mon", "update:"+hx.ObjString(r)) }).
			OnDelete(func(r metav1.Object) { o.add("fclone.mon", "delete:"+hx.ObjString(r)) }).Create()
		if _, err := kcache.NewMonitor(fc2, hm); err != nil {
			o.errs = append(o.errs, "NewMonitor(filter clone):"+err.Error())
		}
		o.readers = append(o.readers, func() {
			l, _ := fc2.Cache().List()
			o.setList("fclone", hx.ListString(l), hx.IsClosed(fc2.Ready()))
		})
	}
	if ds, err := base.SubscribeForFilter(); err != nil {
		o.errs = append(o.errs, "SubscribeForFilter:"+err.Error())
	} else {
		stream("dsub", ds.Events())
		if err := ds.Refilter(hx.MkFilter(2)); err != nil {
			o.errs = append(o.errs, "Refilter(dsub):"+err.Error())
		}
		o.readers = append(o.readers, func() {
			l, _ := ds.Cache().List()
			o.setList("dsub", hx.ListString(l), hx.IsClosed(ds.Ready()))
		})
	}
}

type inst struct {
	reuse       bool // two handlers from one builder
	noneAtReady bool // the base holds only a foreign object when it becomes ready (nothing of the type)
	stall       bool // the stalled-beyond-buffer scenario
	ad          adapter
	typed       obs
	untyped     obs
	finished    bool
}

// runStalled: a consumer that reads nothing while 3 x buffer events are published (paced: the library's internal
// stages never lag), then drains and closes: the typed subscription keeps and loses exactly what the untyped one does.
func (in *inst) runStalled() {
	mk := in.ad.mk
	bases := []*hx.Root{hx.NewRoot(filter.Null()), hx.NewRoot(filter.Null())}
	for _, b := range bases {
		b.Init([]metav1.Object{mk("ns", "a", "1", "l=1")})
	}
	in.typed.release, in.untyped.release = make(chan struct{}), make(chan struct{})
	in.ad.stalled(bases[0].Pub, &in.typed)
	stalledUntyped(bases[1].Pub, &in.untyped)
	vs.SleepIdle(time.Duration(1))
	for i := 2; i <= 7; i++ {
		for _, b := range bases {
			b.Publish(kcache.NewEvent(kcache.EventTypeUpdate, mk("ns", "a", fmt.Sprint(i), "l=1")))
		}
		vs.SleepIdle(time.Duration(1))
	}
	close(in.typed.release)
	close(in.untyped.release)
	vs.SleepIdle(time.Duration(1))
	for _, o := range []*obs{&in.typed, &in.untyped} {
		for _, c := range o.closers {
			c()
		}
	}
	vs.SleepIdle(time.Duration(1))
	for _, o := range []*obs{&in.typed, &in.untyped} {
		for _, d := range o.dones {
			o.doneAfterClose = append(o.doneAfterClose, hx.IsClosed(d()))
		}
	}
	in.finished = true
	for _, b := range bases {
		b.Stop()
	}
}

// runReuse: typed and untyped monitors built from a reused handler builder see the same stream.
func (in *inst) runReuse() {
	mk := in.ad.mk
	bases := []*hx.Root{hx.NewRoot(filter.Null()), hx.NewRoot(filter.Null())}
	for _, b := range bases {
		b.Init([]metav1.Object{mk("ns", "a", "1", "l=1")})
	}
	in.ad.reuse(bases[0].Pub, &in.typed)
	reuseUntyped(bases[1].Pub, &in.untyped)
	vs.SleepIdle(time.Duration(1))
	for _, b := range bases {
		b.Publish(kcache.NewEvent(kcache.EventTypeCreate, mk("ns", "b", "2", "l=1")))
		b.Publish(kcache.NewEvent(kcache.EventTypeUpdate, mk("ns", "a", "3", "l=0")))
	}
	vs.SleepIdle(time.Duration(1))
	in.finished = true
	for _, b := range bases {
		b.Stop()
	}
}

func (in *inst) run() {
	if in.reuse {
		in.runReuse()
		return
	}
	if in.stall {
		in.runStalled()
		return
	}
	mk := in.ad.mk
	foreign := func(rv, labels string) metav1.Object {
		if in.ad.name == "pod" {
			return &corev1.Service{ObjectMeta: metav1.ObjectMeta{Namespace: "ns", Name: "foreign", ResourceVersion: rv, Labels: hx.ParseLabels(labels)}}
		}
		return hx.Pod("ns", "foreign", rv, labels)
	}
	// two identical bases (one observed through the typed wrapper, one untyped) driven by the same history
	bases := []*hx.Root{hx.NewRoot(filter.Null()), hx.NewRoot(filter.Null())}
	for _, b := range bases {
		if in.noneAtReady {
			b.Init([]metav1.Object{foreign("1", "l=1")})
		} else {
			b.Init([]metav1.Object{mk("ns", "a", "1", "l=1"), foreign("1", "l=1")})
		}
	}
	in.ad.run(bases[0].Pub, &in.typed)
	runUntyped(bases[1].Pub, &in.untyped)
	// both trees are complete and ready before the stream starts, so that the typed and the untyped
	// instance see the same stream whatever the schedule
	vs.SleepIdle(time.Duration(1))
	for _, b := range bases {
		b := b
		go func() {
			b.Publish(kcache.NewEvent(kcache.EventTypeCreate, mk("ns", "b", "2", "l=1")))
			b.Publish(kcache.NewEvent(kcache.EventTypeUpdate, foreign("3", "l=1")))
			b.Publish(kcache.NewEvent(kcache.EventTypeUpdate, mk("ns", "a", "4", "l=0")))
			b.Publish(kcache.NewEvent(kcache.EventTypeDelete, mk("ns", "b", "5", "l=1")))
		}()
	}
	vs.SleepIdle(time.Duration(1))
	for _, o := range []*obs{&in.typed, &in.untyped} {
		for _, r := range o.readers {
			r()
		}
		for _, c := range o.closers {
			c()
		}
	}
	vs.SleepIdle(time.Duration(1))
	for _, o := range []*obs{&in.typed, &in.untyped} {
		for _, d := range o.dones {
			o.doneAfterClose = append(o.doneAfterClose, hx.IsClosed(d()))
		}
	}
	// the bases shut down: reads of a typed cache answer like reads of the untyped one (ErrNotRunning, not "absent")
	for _, b := range bases {
		b.Stop()
	}
	vs.SleepIdle(time.Duration(1))
	for _, o := range []*obs{&in.typed, &in.untyped} {
		for _, f := range o.afterStop {
			f()
		}
	}
	in.finished = true
}

// restrict keeps the entries of an untyped observation that concern objects of the type (everything but "foreign").
func restrict(l []string) []string {
	var out []string
	for _, s := range l {
		if !strings.Contains(s, "ns/foreign@") {
			out = append(out, s)
		}
	}
	return out
}

func restrictList(s string) string {
	var keep []string
	for _, o := range strings.Fields(strings.Trim(s, "[]")) {
		if !strings.HasPrefix(o, "ns/foreign@") {
			keep = append(keep, o)
		}
	}
	return "[" + strings.Join(keep, " ") + "]"
}

func (in *inst) check(r *vs.Result) []string {
	var msgs []string
	n := in.ad.name
	if !in.finished {
		return []string{fmt.Sprintf("hang | %s: the run did not finish; blocked %d", n, len(r.Blocked))}
	}
	t, u := in.typed, in.untyped
	if len(t.errs) > 0 || len(u.errs) > 0 {
		msgs = append(msgs, fmt.Sprintf("construction failed | %s: typed %v untyped %v", n, t.errs, u.errs))
	}
	cmp := func(what string, tv, uv []string) {
		if strings.Join(tv, " ") != strings.Join(restrict(uv), " ") {
			class := "typed " + what + " differ from the untyped ones restricted to the type"
			for _, s := range tv {
				if strings.Contains(s, "<nil>") {
					class = "typed " + what + ": foreign object not skipped (delivered as nil)"
				}
			}
			msgs = append(msgs, fmt.Sprintf("%s | %s: typed %v, untyped %v", class, n, tv, uv))
		}
	}
	if in.reuse {
		if strings.Join(t.reuse1, " ") != strings.Join(u.reuse1, " ") || strings.Join(t.reuse2, " ") != strings.Join(u.reuse2, " ") {
			msgs = append(msgs, fmt.Sprintf("typed handler builder reused: handlers differ from the untyped ones | %s: first handler typed %v untyped %v; second handler typed %v untyped %v", n, t.reuse1, u.reuse1, t.reuse2, u.reuse2))
		}
		return msgs
	}
	if in.stall {
		if strings.Join(t.stalled, " ") != strings.Join(u.stalled, " ") || t.stalledClosed != u.stalledClosed {
			msgs = append(msgs, fmt.Sprintf("typed stalled subscription keeps other events than the untyped one | %s (buffer modelled as 2, 6 events while the consumer is stalled): typed drained %v (Events() closed after Close: %v), untyped drained %v (closed: %v)", n, t.stalled, t.stalledClosed, u.stalled, u.stalledClosed))
		}
		if fmt.Sprint(t.doneAfterClose) != fmt.Sprint(u.doneAfterClose) {
			msgs = append(msgs, fmt.Sprintf("typed lifecycle differs | %s: Done() after Close typed %v untyped %v", n, t.doneAfterClose, u.doneAfterClose))
		}
		return msgs
	}
	cmp("subscription events", t.sub, u.sub)
	cmp("filtered subscription events", t.fsub, u.fsub)
	cmp("for-filter clone events", t.cloneSub, u.cloneSub)
	// OnInitialize argument: list restricted to the type
	tc, uc := append([]string{}, t.calls...), append([]string{}, u.calls...)
	if ti, ui := len(tc) > 0 && strings.HasPrefix(tc[0], "init:"), len(uc) > 0 && strings.HasPrefix(uc[0], "init:"); ti != ui {
		msgs = append(msgs, fmt.Sprintf("typed OnInitialize differs | %s: OnInitialize first: typed %v, untyped %v (typed calls %v, untyped calls %v)", n, ti, ui, tc, uc))
	}
	if len(tc) > 0 && len(uc) > 0 && strings.HasPrefix(tc[0], "init:") && strings.HasPrefix(uc[0], "init:") {
		if strings.TrimPrefix(tc[0], "init:") != restrictList(strings.TrimPrefix(uc[0], "init:")) {
			msgs = append(msgs, fmt.Sprintf("typed OnInitialize differs | %s: typed %s, untyped %s", n, tc[0], uc[0]))
		}
		tc, uc = tc[1:], uc[1:]
	}
	cmp("monitor callbacks", tc, uc)
	if t.subList != restrictList(u.subList) || t.fsubList != restrictList(u.fsubList) || t.cloneList != restrictList(u.cloneList) {
		msgs = append(msgs, fmt.Sprintf("typed cache content differs | %s: typed %s/%s/%s, untyped %s/%s/%s", n, t.subList, t.fsubList, t.cloneList, u.subList, u.fsubList, u.cloneList))
	}
	for _, key := range []string{"clone>sub", "fclone>sub", "dsub"} {
		cmp(key+" events", t.extra[key], u.extra[key])
	}
	{
		tm, um := append([]string{}, t.extra["fclone.mon"]...), append([]string{}, u.extra["fclone.mon"]...)
		if len(tm) > 0 && len(um) > 0 && strings.HasPrefix(tm[0], "init:") && strings.HasPrefix(um[0], "init:") {
			if strings.TrimPrefix(tm[0], "init:") != restrictList(strings.TrimPrefix(um[0], "init:")) {
				msgs = append(msgs, fmt.Sprintf("typed OnInitialize differs | %s (monitor on a filter clone): typed %s, untyped %s", n, tm[0], um[0]))
			}
			tm, um = tm[1:], um[1:]
		} else if len(tm) > 0 || len(um) > 0 {
			msgs = append(msgs, fmt.Sprintf("typed OnInitialize differs | %s (monitor on a filter clone): typed calls %v, untyped calls %v", n, tm, um))
		}
		cmp("callbacks of a monitor on a filter clone", tm, um)
	}
	for _, key := range []string{"clone", "fclone", "dsub"} {
		tl, ul := t.extraLists[key], u.extraLists[key]
		ui := strings.LastIndex(ul, " ready=")
		if ui < 0 || tl != restrictList(ul[:ui])+ul[ui:] {
			msgs = append(msgs, fmt.Sprintf("typed cache content differs | %s: %s: typed %s, untyped %s", n, key, tl, ul))
		}
	}
	if t.getForeign != "<nil>" && !strings.HasPrefix(t.getForeign, "error:") {
		msgs = append(msgs, fmt.Sprintf("typed Get returns a foreign object | %s: %s", n, t.getForeign))
	}
	if t.subReady != u.subReady || t.fsubReady != u.fsubReady || t.cloneReady != u.cloneReady {
		msgs = append(msgs, fmt.Sprintf("typed readiness differs | %s: typed %v/%v/%v untyped %v/%v/%v", n, t.subReady, t.fsubReady, t.cloneReady, u.subReady, u.fsubReady, u.cloneReady))
	}
	if fmt.Sprint(t.doneAfterClose) != fmt.Sprint(u.doneAfterClose) {
		msgs = append(msgs, fmt.Sprintf("typed lifecycle differs | %s: Done() after Close typed %v untyped %v", n, t.doneAfterClose, u.doneAfterClose))
	}
	if t.readsAfterStop != u.readsAfterStop {
		msgs = append(msgs, fmt.Sprintf("typed cache reads after shutdown differ | %s: typed {%s}, untyped {%s}", n, t.readsAfterStop, u.readsAfterStop))
	}
	return msgs
}

func (in *inst) outcome() string {
	return fmt.Sprintf("%s sub=%v calls=%v", in.ad.name, in.typed.sub, in.typed.calls)
}

func Property() runner.Property {
	return runner.Property{
		ID:    "C20",
		Level: "model_checking",
		Rule:  "behaviour: for each of the 12 typed packages the tree {Subscribe, SubscribeWithFilter, CloneForFilter+Refilter+Subscribe, NewMonitor, Clone+Subscribe, CloneWithFilter+Subscribe+NewMonitor on it, SubscribeForFilter+Refilter} runs through the real typed wrapper over a publisher-level base and, side by side, on the untyped core over an identical base; the history contains objects of a foreign type (in the first list and as an event); schedules within d deviations of the default (d=1 quick, 2 thorough); the same tree over a base that holds nothing of the type when it becomes ready; plus, per package, a subscription whose consumer is stalled through 3 x buffer events (buffer modelled as 2), then drains and closes; oracle: typed event streams, monitor callbacks, cache lists, readiness and Done() equal the untyped ones restricted to the type, foreign objects are skipped, nothing panics. source level (sequential_part): the 12 typed generated.go and 8 generated joins equal their templates instantiated with the Makefile's parameters (structural comparison of every top-level declaration), and the 12 typed clients issue GET on the API path of their own resource and namespace for List and Watch (168 requests against a recording transport: list, watch, both repeated, watch called without the Watch flag, and both with label and field selectors)",
		Assumptions: []string{
			"publisher-level bases; deviation-bounded schedules",
			"template equality is an exhaustive structural equality over 20 instances, not a behavioural exploration",
			"client requests are observed at the http.RoundTripper (no socket); a namespaced request for the cluster-scoped node type is recorded, not judged",
		},
		Scenarios: func(tier string) []runner.Sc {
			d := 1
			if tier == "thorough" {
				d = 2
			}
			var out []runner.Sc
			for _, ad := range adapters {
				ad := ad
				out = append(out, runner.Sc{Scenario: explore.Scenario{
					Name: "c20/behaviour/" + ad.name, Mode: "S2", Bound: d,
					Cfg: vs.Config{Timers: vs.TimersIdle, MaxSteps: 400000},
					New: func() explore.Instance {
						in := &inst{ad: ad}
						return explore.Instance{Run: in.run, Check: in.check, Outcome: in.outcome}
					},
				}, Split: true})
				out = append(out, runner.Sc{Scenario: explore.Scenario{
					Name: "c20/nothing-of-the-type-at-ready/" + ad.name, Mode: "S2", Bound: d,
					Cfg: vs.Config{Timers: vs.TimersIdle, MaxSteps: 400000},
					New: func() explore.Instance {
						in := &inst{ad: ad, noneAtReady: true}
						return explore.Instance{Run: in.run, Check: in.check, Outcome: in.outcome}
					},
				}, Split: true})
				out = append(out, runner.Sc{Scenario: explore.Scenario{
					Name: "c20/handler-builder-reused/" + ad.name, Mode: "S2", Bound: d,
					Cfg: vs.Config{Timers: vs.TimersIdle, MaxSteps: 400000},
					New: func() explore.Instance {
						in := &inst{ad: ad, reuse: true}
						return explore.Instance{Run: in.run, Check: in.check, Outcome: in.outcome}
					},
				}})
				out = append(out, runner.Sc{Scenario: explore.Scenario{
					Name: "c20/stalled-beyond-buffer/" + ad.name, Mode: "S2", Bound: d,
					Cfg: vs.Config{Timers: vs.TimersIdle, MaxSteps: 400000, Bufsiz: 2},
					New: func() explore.Instance {
						in := &inst{ad: ad, stall: true}
						return explore.Instance{Run: in.run, Check: in.check, Outcome: in.outcome}
					},
				}})
			}
			return out
		},
		Extra: func(tier string, seed int64) *runner.ExtraResult {
			t := c20static.Templates()
			c := c20static.Clients()
			res := &runner.ExtraResult{
				Name:        "templates+clients",
				Evaluations: t.Evaluations + c.Evaluations,
				Distinct:    t.Distinct + c.Distinct,
				Complete:    t.Complete && c.Complete,
				Note:        t.Note + " " + c.Note,
				Coverage:    map[string]interface{}{"templates": t.Coverage, "clients": c.Coverage, "template_instances": t.Distinct, "client_requests": c.Distinct},
			}
			res.Samples = append(res.Samples, t.Samples...)
			res.Samples = append(res.Samples, c.Samples...)
			if len(res.Samples) > 6 {
				res.Samples = res.Samples[:6]
			}
			res.Violations = append(res.Violations, t.Violations...)
			res.Violations = append(res.Violations, c.Violations...)
			return res
		},
	}
}
