// Package fakeapi is a scripted Kubernetes API server for one resource: a
// global resourceVersion counter, an object map and an event log.  List returns
// a typed snapshot, Watch a stream that replays log entries newer than the
// requested version and then follows live mutations.  Faults are scripted per
// call number, so that "every fault at every position" is an explicit
// enumeration of scenarios.  All server state is touched inside vs.Atomic.
package fakeapi

import (
	"context"
	"errors"
	"fmt"
	"sort"
	"strconv"
	"time"

	corev1 "k8s.io/api/core/v1"
	apierrors "k8s.io/apimachinery/pkg/api/errors"
	metav1 "k8s.io/apimachinery/pkg/apis/meta/v1"
	"k8s.io/apimachinery/pkg/runtime"
	"k8s.io/apimachinery/pkg/watch"

	"verif/vs"
)

var ErrInjected = errors.New("injected API failure")

// ListFault kinds: "" ok, "norv" (no list resourceVersion), "dup-old" (every object is followed by its previous version), "error", "error+list" (the error comes with an empty non-nil list object, as from client-go's typed clients), "canceled" (an error wrapping context.Canceled while the context is alive), "nonlist" (a Pod instead of a list), "nonobjects" (a list whose items are
// not API objects), "noaccessor" (object without list meta), "block" (returns only when ctx is cancelled).
type ListFault struct {
	Kind    string
	Latency time.Duration
	// Stale: the snapshot is taken when the call arrives (before the latency), so the reply can be older than
	// watch events delivered meanwhile (a real slow list)
	Stale bool
}

// WatchFault describes what one Watch call does.
//
//	Kind: "" follow forever | "error" connect error | "expired" connect error 410 Gone (StatusError) | "block" connect blocks until ctx cancelled |
//	      "close" close the stream after After frames | "drop" silently drop frame number After (0-based) |
//	      "dup" deliver frame number After twice | "status" insert a Status frame before frame After |
//	      "bookmark" insert a Bookmark frame before frame After | "bookmark+close" a Bookmark frame at the version of the last frame sent, then the stream closes, before frame After | "errorframe" insert an Error frame (Status object) before frame After | "errorframe-obj" / "errorframe-nil" Error frame with an ordinary object / no payload |
//	      "stale-delete" the stream starts by replaying a DELETED frame for an object that exists (lagging watch cache) |
//	      "garbage" insert a frame whose object has no metadata before frame After (ends the session)
type WatchFault struct {
	Kind  string
	After int
}

type entry struct {
	rv  int
	typ watch.EventType
	obj *corev1.Pod
}

type Server struct {
	rv      int
	objs    map[string]*corev1.Pod
	log     []entry
	streams []*stream

	ListFaults  map[int]ListFault  // by list call number (1-based)
	WatchFaults map[int]WatchFault // by watch call number (1-based)
	// DefaultWatch applies to watch calls without an entry in WatchFaults.
	DefaultWatch WatchFault

	Lists     int
	Watches   int
	WatchRVs  []string
	ListTimes []int64
	// WatchTimes: virtual time of every Watch call; WatchFailed[i]: call i (0-based) returned a connect error
	WatchTimes  []int64
	WatchFailed []bool
	ListRVs     []int // server version at the snapshot of every successful list
	// StaleAtList: for every stale frame a faulty stream replayed, how many successful lists had taken their
	// snapshot when it was delivered (a later list is needed to repair what the stale frame did)
	StaleAtList []int
	Inflight    int
	MaxFlight   int
	// OnWatchFrame, when set, runs right after a stream has handed over its idx-th (0-based) frame.
	OnWatchFrame func(idx int)
	// OnListReturn, when set, runs just before the n-th list call returns its (good) answer.
	OnListReturn func(n int)
}

func New() *Server {
	s := &Server{objs: map[string]*corev1.Pod{}, ListFaults: map[int]ListFault{}, WatchFaults: map[int]WatchFault{}}
	vs.RegisterObj(s)
	return s
}

// SetStartRV makes the server's resource versions start above n (call before anything else): histories can then
// cross a digit boundary (9 -> 10), where comparing versions as strings goes wrong.
func (s *Server) SetStartRV(n int) { s.rv = n }

func key(ns, name string) string { return ns + "/" + name }

func pod(ns, name string, rv int, labels map[string]string) *corev1.Pod {
	return &corev1.Pod{ObjectMeta: metav1.ObjectMeta{Namespace: ns, Name: name, ResourceVersion: strconv.Itoa(rv), Labels: labels}}
}

// Set creates or updates ns/name with the given labels; returns the new version.
func (s *Server) Set(ns, name string, labels map[string]string) int {
	var v int
	vs.Atomic(s, func() {
		s.rv++
		v = s.rv
		p := pod(ns, name, s.rv, labels)
		typ := watch.Modified
		if _, ok := s.objs[key(ns, name)]; !ok {
			typ = watch.Added
		}
		s.objs[key(ns, name)] = p
		s.log = append(s.log, entry{s.rv, typ, p})
	})
	s.notify()
	return v
}

// Delete removes ns/name (no-op if absent).
func (s *Server) Delete(ns, name string) {
	changed := false
	vs.Atomic(s, func() {
		old, ok := s.objs[key(ns, name)]
		if !ok {
			return
		}
		s.rv++
		delete(s.objs, key(ns, name))
		p := pod(ns, name, s.rv, old.Labels)
		s.log = append(s.log, entry{s.rv, watch.Deleted, p})
		changed = true
	})
	if changed {
		s.notify()
	}
}

// Preload sets the initial content without log entries newer than what a first list will see.
func (s *Server) notify() {
	var live []*stream
	vs.Atomic(s, func() { live = append(live, s.streams...) })
	for _, st := range live {
		select {
		case st.wake <- struct{}{}:
		default:
		}
	}
}

// Objects returns the current server content sorted by key (call inside a controlled goroutine).
func (s *Server) Objects() []metav1.Object {
	var out []metav1.Object
	vs.Atomic(s, func() {
		for _, p := range s.objs {
			out = append(out, p)
		}
	})
	sort.Slice(out, func(i, j int) bool {
		return key(out[i].GetNamespace(), out[i].GetName()) < key(out[j].GetNamespace(), out[j].GetName())
	})
	return out
}

// Snapshot returns content and version atomically (what a list sees).
func (s *Server) Snapshot() ([]metav1.Object, int) {
	var out []metav1.Object
	rv := 0
	vs.Atomic(s, func() {
		for _, p := range s.objs {
			out = append(out, p)
		}
		rv = s.rv
	})
	sort.Slice(out, func(i, j int) bool {
		return key(out[i].GetNamespace(), out[i].GetName()) < key(out[j].GetNamespace(), out[j].GetName())
	})
	return out, rv
}

// Version0 reads the version without a scheduling point (call inside Atomic(s)).
func (s *Server) Version0() int { return s.rv }

func (s *Server) Version() int {
	v := 0
	vs.Atomic(s, func() { v = s.rv })
	return v
}

// ---- List ------------------------------------------------------------------------------------

type notAList struct{ metav1.TypeMeta }

func (n *notAList) DeepCopyObject() runtime.Object { return n }

func (s *Server) List(ctx context.Context, opts metav1.ListOptions) (runtime.Object, error) {
	var n int
	var f ListFault
	var snap *corev1.PodList
	now := vs.ClockHere()
	vs.Atomic(s, func() {
		s.Lists++
		n = s.Lists
		f = s.ListFaults[n]
		s.ListTimes = append(s.ListTimes, now)
		s.Inflight++
		if s.Inflight > s.MaxFlight {
			s.MaxFlight = s.Inflight
		}
	})
	defer vs.Atomic(s, func() { s.Inflight-- })
	takeSnap := func() {
		vs.Atomic(s, func() {
			if f.Kind == "" || f.Kind == "norv" || f.Kind == "dup-old" {
				s.ListRVs = append(s.ListRVs, s.rv)
			}
			snap = &corev1.PodList{ListMeta: metav1.ListMeta{ResourceVersion: strconv.Itoa(s.rv)}}
			keys := make([]string, 0, len(s.objs))
			for k := range s.objs {
				keys = append(keys, k)
			}
			sort.Strings(keys)
			for _, k := range keys {
				snap.Items = append(snap.Items, *s.objs[k])
			}
		})
	}
	if f.Stale {
		takeSnap()
	}
	if f.Latency > 0 || f.Kind == "block" {
		var tc <-chan time.Time
		if f.Kind != "block" {
			t := time.NewTimer(f.Latency)
			defer t.Stop()
			tc = t.C
		}
		select {
		case <-tc:
		case <-ctx.Done():
			return nil, ctx.Err()
		}
	} else {
		select {
		case <-ctx.Done():
			return nil, ctx.Err()
		default:
		}
	}
	// normally the snapshot is taken when the (possibly slow) list completes on the server side
	if !f.Stale {
		takeSnap()
	}
	switch f.Kind {
	case "norv":
		// a list without a resourceVersion (aggregated / fake servers)
		snap.ListMeta.ResourceVersion = ""
		return snap, nil
	case "dup-old":
		// a list that names objects twice (paginated / aggregated): each object is followed by its previous version
		var items []corev1.Pod
		vs.Atomic(s, func() {
			for _, it := range snap.Items {
				items = append(items, it)
				var prev *corev1.Pod
				for _, e := range s.log {
					if p := e.obj; e.typ != watch.Deleted && p.Namespace == it.Namespace && p.Name == it.Name && p.ResourceVersion != it.ResourceVersion {
						prev = p
					}
				}
				if prev != nil {
					items = append(items, *prev)
				}
			}
		})
		snap.Items = items
		return snap, nil
	case "status":
		// a Status object instead of a list: it has list metadata but no items
		return &metav1.Status{ListMeta: snap.ListMeta, Status: "Failure", Message: "injected"}, nil
	case "error":
		return nil, ErrInjected
	case "error+list":
		// what client-go's typed clients do on failure: an empty, non-nil list object together with the error
		return &corev1.PodList{}, ErrInjected
	case "canceled":
		// the API reports a cancellation although the caller's context is alive (e.g. a proxy timeout surfaced as context.Canceled)
		return nil, fmt.Errorf("list interrupted: %w", context.Canceled)
	case "nonlist":
		return &corev1.Pod{ObjectMeta: metav1.ObjectMeta{Name: "not-a-list"}}, nil
	case "nonobjects":
		// the real objects with one foreign (undecoded) item among them
		l := &metav1.List{ListMeta: snap.ListMeta}
		for i := range snap.Items {
			if i == 1 {
				l.Items = append(l.Items, runtime.RawExtension{Object: &notAList{}})
			}
			l.Items = append(l.Items, runtime.RawExtension{Object: &snap.Items[i]})
		}
		if len(snap.Items) < 2 {
			l.Items = append(l.Items, runtime.RawExtension{Object: &notAList{}})
		}
		return l, nil
	case "nilitem":
		// a generic list one of whose entries decoded to nothing at all
		l := &metav1.List{ListMeta: snap.ListMeta}
		for i := range snap.Items {
			l.Items = append(l.Items, runtime.RawExtension{Object: &snap.Items[i]})
		}
		l.Items = append(l.Items, runtime.RawExtension{})
		return l, nil
	case "noaccessor":
		return &notAList{}, nil
	}
	if s.OnListReturn != nil {
		s.OnListReturn(n)
	}
	return snap, nil
}

// ---- Watch -----------------------------------------------------------------------------------

type stream struct {
	s       *Server
	ch      chan watch.Event
	wake    chan struct{}
	stopch  chan struct{}
	cursor  int // last rv delivered or skipped
	fault   WatchFault
	frames  int
	ctx     context.Context
	stopped bool
}

func (st *stream) ResultChan() <-chan watch.Event { return st.ch }

func (st *stream) Stop() {
	first := false
	vs.Atomic(st, func() {
		if !st.stopped {
			st.stopped = true
			first = true
		}
	})
	if first {
		close(st.stopch)
	}
}

func (s *Server) Watch(ctx context.Context, opts metav1.ListOptions) (watch.Interface, error) {
	var n int
	var f WatchFault
	wnow := vs.ClockHere()
	vs.Atomic(s, func() {
		s.Watches++
		n = s.Watches
		s.WatchRVs = append(s.WatchRVs, opts.ResourceVersion)
		s.WatchTimes = append(s.WatchTimes, wnow)
		var ok bool
		if f, ok = s.WatchFaults[n]; !ok {
			f = s.DefaultWatch
		}
		s.WatchFailed = append(s.WatchFailed, f.Kind == "error" || f.Kind == "expired" || f.Kind == "error-canceled")
	})
	switch f.Kind {
	case "error":
		return nil, ErrInjected
	case "error-canceled":
		// a connect error that wraps context.Canceled although the caller's context is alive
		return nil, fmt.Errorf("connecting to server: %w", context.Canceled)
	case "expired":
		// 410 Gone as a connect error: "too old resource version" (the caller must not silently start from "now")
		return nil, apierrors.NewResourceExpired("too old resource version: " + opts.ResourceVersion)
	case "block":
		<-ctx.Done()
		return nil, ctx.Err()
	}
	var rv int
	if opts.ResourceVersion == "" {
		// no version: the stream starts at the server's current state ("from now"); nothing older is replayed
		vs.Atomic(s, func() { rv = s.rv })
	} else {
		var err error
		rv, err = strconv.Atoi(opts.ResourceVersion)
		if err != nil {
			return nil, fmt.Errorf("bad resourceVersion %q", opts.ResourceVersion)
		}
	}
	st := &stream{s: s, ch: make(chan watch.Event), wake: make(chan struct{}, 2), stopch: make(chan struct{}), cursor: rv, fault: f, ctx: ctx}
	vs.RegisterObj(st)
	vs.Atomic(s, func() { s.streams = append(s.streams, st) })
	go st.pump()
	return st, nil
}

func (st *stream) send(e watch.Event) bool {
	select {
	case st.ch <- e:
		return true
	case <-st.stopch:
		return false
	case <-st.ctx.Done():
		return false
	}
}

func (st *stream) pump() {
	defer close(st.ch)
	defer func() {
		vs.Atomic(st.s, func() {
			for i, x := range st.s.streams {
				if x == st {
					st.s.streams = append(st.s.streams[:i], st.s.streams[i+1:]...)
					break
				}
			}
		})
	}()
	f := st.fault
	if f.Kind == "stale-delete" {
		// a lagging watch cache replays an old DELETED frame for an object that exists: the first object by key
		var victim *corev1.Pod
		vs.Atomic(st.s, func() {
			keys := make([]string, 0, len(st.s.objs))
			for k := range st.s.objs {
				keys = append(keys, k)
			}
			sort.Strings(keys)
			if len(keys) > 0 {
				victim = st.s.objs[keys[0]]
			}
		})
		if victim != nil {
			if !st.send(watch.Event{Type: watch.Deleted, Object: victim}) {
				return
			}
			vs.Atomic(st.s, func() { st.s.StaleAtList = append(st.s.StaleAtList, len(st.s.ListRVs)) })
		}
	}
	for {
		var pending []entry
		vs.Atomic(st.s, func() {
			for _, e := range st.s.log {
				if e.rv > st.cursor {
					pending = append(pending, e)
				}
			}
		})
		for _, e := range pending {
			if f.Kind == "close" && st.frames >= f.After {
				return
			}
			if st.frames == f.After {
				switch f.Kind {
				case "status":
					if !st.send(watch.Event{Type: watch.Modified, Object: &metav1.Status{Status: "Failure", Message: "injected"}}) {
						return
					}
				case "bookmark":
					if !st.send(watch.Event{Type: watch.Bookmark, Object: pod("", "", e.rv, nil)}) {
						return
					}
				case "bookmark+close":
					// a bookmark at the version of the last frame sent, then the stream ends
					st.send(watch.Event{Type: watch.Bookmark, Object: pod("", "", st.cursor, nil)})
					return
				case "errorframe":
					if !st.send(watch.Event{Type: watch.Error, Object: &metav1.Status{Status: "Failure", Message: "injected", Code: 410}}) {
						return
					}
				case "errorframe-obj":
					// an Error frame whose payload is an ordinary object, not a Status
					if !st.send(watch.Event{Type: watch.Error, Object: pod("ns", "errpayload", e.rv, nil)}) {
						return
					}
				case "errorframe-nil":
					if !st.send(watch.Event{Type: watch.Error, Object: nil}) {
						return
					}
				case "garbage":
					if !st.send(watch.Event{Type: watch.Modified, Object: &notAList{}}) {
						return
					}
				}
			}
			st.cursor = e.rv
			idx := st.frames
			st.frames++
			if f.Kind == "drop" && idx == f.After {
				continue
			}
			ev := watch.Event{Type: e.typ, Object: e.obj}
			if !st.send(ev) {
				return
			}
			if st.s.OnWatchFrame != nil {
				st.s.OnWatchFrame(idx)
			}
			if f.Kind == "dup" && idx == f.After {
				if !st.send(ev) {
					return
				}
			}
		}
		if f.Kind == "close" && st.frames >= f.After {
			return
		}
		select {
		case <-st.wake:
		case <-st.stopch:
			return
		case <-st.ctx.Done():
			return
		}
	}
}
