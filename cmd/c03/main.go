package main

import (
	"verif/harness/c03"
	"verif/runner"
)

func main() { runner.Main(c03.Property()) }
