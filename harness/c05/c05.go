// Package c05: every subscriber sees the published event sequence, in order,
// exactly once.  Seam: real parent cache + real root subscription + real
// publisher (driven the way controller.run drives them) with trees of
// Subscribe/Clone below, one consumer per leaf, one late subscriber.
package c05

import (
	"fmt"
	"strings"

	"github.com/boz/kcache"
	"github.com/boz/kcache/filter"

	"verif/explore"
	"verif/harness/c03"
	"verif/harness/c10"
	"verif/harness/hx"
	"verif/runner"
	"verif/vs"
)

type cfg struct {
	Name      string
	Tree      []hx.Spec
	K         int
	Late      string // "": none; "root": late Subscribe on the root publisher; "clone": on the first clone
	CloseLeaf string // path of a leaf that is closed concurrently with the stream (its siblings must not notice)
	// Churn: before the stream starts, CloseLeaf is closed and (once that has been processed) the Late subscriber
	// subscribes: everybody still there, old and new, receives the whole stream
	Churn      bool
	TwoUpdates bool // the stream has two consecutive updates of one object
	MapOrder   bool // the publisher's iteration order over its subscriptions is an explorer choice
	Prop       string
	Mode       string
	Bound      int
}

func script() []kcache.Event {
	return []kcache.Event{
		kcache.NewEvent(kcache.EventTypeCreate, hx.Pod("ns", "a", "1", "l=1")),
		kcache.NewEvent(kcache.EventTypeUpdate, hx.Pod("ns", "a", "2", "l=1")),
		kcache.NewEvent(kcache.EventTypeCreate, hx.Pod("ns", "b", "3", "l=0")),
		kcache.NewEvent(kcache.EventTypeDelete, hx.Pod("ns", "a", "4", "l=1")),
	}
}

func script2() []kcache.Event {
	return []kcache.Event{
		kcache.NewEvent(kcache.EventTypeCreate, hx.Pod("ns", "a", "1", "l=1")),
		kcache.NewEvent(kcache.EventTypeUpdate, hx.Pod("ns", "a", "2", "l=1")),
		kcache.NewEvent(kcache.EventTypeUpdate, hx.Pod("ns", "a", "3", "l=1")),
		kcache.NewEvent(kcache.EventTypeUpdate, hx.Pod("ns", "a", "4", "l=0")),
	}
}

type inst struct {
	c            cfg
	root         *hx.Root
	nodes        []*hx.Node
	late         *hx.Node
	lateErr      error
	order        []string // global order of "pub<i>" starts and "subscribed"
	pubFinished  bool
	lateFinished bool
}

func (in *inst) run() {
	in.root = hx.NewRoot(filter.Null())
	in.root.Init(nil)
	in.nodes = hx.Build(in.root.Pub, in.c.Tree, nil, "", nil)
	hx.Walk(in.nodes, func(n *hx.Node) {
		if n.Err != nil {
			vs.Fail("build | node %s: %v", n.Path, n.Err)
		}
		if n.IsLeaf() {
			n := n
			go n.Consume(true)
		}
	})
	evs := script()[:in.c.K]
	if in.c.TwoUpdates {
		evs = script2()[:in.c.K]
	}
	if in.c.Churn {
		hx.Walk(in.nodes, func(n *hx.Node) {
			if n.Path == in.c.CloseLeaf {
				n.Close()
			}
		})
		vs.SleepIdle(1)
		n := &hx.Node{Path: "late"}
		n.Sub, n.Err = in.root.Pub.Subscribe()
		in.lateErr = n.Err
		if n.Err == nil {
			in.order = append(in.order, "subscribed")
			in.late = n
			in.lateFinished = true
			go n.Consume(true)
		}
		vs.SleepIdle(1)
	}
	go func() {
		for i, ev := range evs {
			if in.c.Late != "" {
				i := i
				vs.Atomic("order", func() { in.order = append(in.order, fmt.Sprintf("pub%d", i)) })
			}
			in.root.Publish(ev)
		}
		in.pubFinished = true
	}()
	if in.c.CloseLeaf != "" && !in.c.Churn {
		go func() {
			hx.Walk(in.nodes, func(n *hx.Node) {
				if n.Path == in.c.CloseLeaf {
					n.Close()
				}
			})
		}()
	}
	if in.c.Late != "" && !in.c.Churn {
		go func() {
			var p kcache.Publisher = in.root.Pub
			if in.c.Late == "clone" {
				hx.Walk(in.nodes, func(n *hx.Node) {
					if n.Ctrl != nil && p == kcache.Publisher(in.root.Pub) {
						p = n.Ctrl
					}
				})
			}
			n := &hx.Node{Path: "late"}
			n.Sub, n.Err = p.Subscribe()
			in.lateErr = n.Err
			if n.Err != nil {
				return
			}
			vs.Atomic("order", func() { in.order = append(in.order, "subscribed") })
			in.late = n
			in.lateFinished = true
			n.Consume(true)
		}()
	}
}

func (in *inst) check(r *vs.Result) []string {
	var msgs []string
	pub := in.root.Published
	if !in.pubFinished {
		msgs = append(msgs, fmt.Sprintf("publisher blocked | the publishing driver did not finish (%d of %d events published); blocked: %d goroutines", len(pub), in.c.K, len(r.Blocked)))
		return msgs
	}
	if len(pub) != in.c.K {
		msgs = append(msgs, fmt.Sprintf("harness | expected %d published events, got %v", in.c.K, pub))
	}
	want := strings.Join(pub, " ")
	hx.Walk(in.nodes, func(n *hx.Node) {
		if !n.IsLeaf() {
			return
		}
		got := strings.Join(n.Received, " ")
		if n.Path == in.c.CloseLeaf || (in.c.CloseLeaf != "" && strings.HasPrefix(n.Path, in.c.CloseLeaf+"/")) {
			// the closed leaf sees a prefix of the stream
			if !strings.HasPrefix(want, got) {
				msgs = append(msgs, fmt.Sprintf("closed leaf stream is not a prefix | leaf %s received [%s], published [%s]", n.Path, got, want))
			}
			return
		}
		if got != want {
			class := "leaf stream differs from published sequence"
			if in.c.CloseLeaf != "" {
				class = "closing a subscription disturbs its siblings"
			}
			msgs = append(msgs, fmt.Sprintf("%s | tree %v (leaf %q closed mid-stream) leaf %s received [%s], published [%s]", class, in.c.Tree, in.c.CloseLeaf, n.Path, got, want))
		}
		if len(n.GetOlder) > 0 {
			msgs = append(msgs, fmt.Sprintf("cache older than event | leaf %s: %v", n.Path, n.GetOlder))
		}
	})
	if in.c.Late != "" {
		if in.lateErr != nil {
			msgs = append(msgs, fmt.Sprintf("late subscribe failed | %v", in.lateErr))
		} else if in.late == nil {
			msgs = append(msgs, "late subscribe hangs | Subscribe() never returned")
		} else {
			// events whose publication started after Subscribe returned must all be there
			must := 0
			seen := false
			for _, o := range in.order {
				if o == "subscribed" {
					seen = true
				} else if seen {
					must++
				}
			}
			got := in.late.Received
			if len(got) > len(pub) || strings.Join(got, " ") != strings.Join(pub[len(pub)-len(got):], " ") {
				msgs = append(msgs, fmt.Sprintf("late stream is not a contiguous suffix | late subscriber on %s received %v, published %v", in.c.Late, got, pub))
			} else if len(got) < must {
				msgs = append(msgs, fmt.Sprintf("late subscriber missed events | late subscriber on %s received %v but %d events were published after Subscribe returned (order %v, published %v)", in.c.Late, got, must, in.order, pub))
			}
			if len(in.late.GetOlder) > 0 {
				msgs = append(msgs, fmt.Sprintf("cache older than event | late leaf: %v", in.late.GetOlder))
			}
		}
	}
	return msgs
}

func (in *inst) outcome() string {
	var b strings.Builder
	hx.Walk(in.nodes, func(n *hx.Node) {
		if n.IsLeaf() {
			fmt.Fprintf(&b, "%s=%d;", n.Path, len(n.Received))
		}
	})
	if in.late != nil {
		fmt.Fprintf(&b, "late=%d order=%v", len(in.late.Received), in.order)
	}
	return b.String()
}

func sub() hx.Spec               { return hx.Spec{Kind: "sub"} }
func clone(c ...hx.Spec) hx.Spec { return hx.Spec{Kind: "clone", Children: c} }

// SiblingScenarios: a leaf is closed while events are flowing; its siblings must receive everything (used by C05 and C11).
func SiblingScenarios(prop, tier string) []runner.Sc {
	t3 := []hx.Spec{sub(), sub(), sub()}
	t2c := []hx.Spec{sub(), clone(sub())}
	out := []runner.Sc{
		scenario(cfg{Prop: prop, Name: "sub,sub", Tree: []hx.Spec{sub(), sub()}, K: 2, CloseLeaf: "0:sub", Mode: "S1"}),
		scenario(cfg{Prop: prop, Name: "sub,sub,sub", Tree: t3, K: 3, CloseLeaf: "0:sub", Mode: "S2", Bound: 2}),
		scenario(cfg{Prop: prop, Name: "sub,clone(sub)", Tree: t2c, K: 3, CloseLeaf: "0:sub", Mode: "S2", Bound: 2}),
		// whichever position the closed leaf has in the publisher's iteration order
		scenario(cfg{Prop: prop, Name: "sub,sub,sub", Tree: t3, K: 2, CloseLeaf: "1:sub", MapOrder: true, Mode: "S2", Bound: 3}),
	}
	if tier == "thorough" {
		out = append(out,
			scenario(cfg{Prop: prop, Name: "sub,sub,sub", Tree: t3, K: 3, CloseLeaf: "1:sub", Mode: "S2", Bound: 3}),
			scenario(cfg{Prop: prop, Name: "sub,sub", Tree: []hx.Spec{sub(), sub()}, K: 3, CloseLeaf: "0:sub", Mode: "S1"}),
		)
	}
	return out
}

func scenario(c cfg) runner.Sc {
	pfx := "c05"
	if c.Prop != "" {
		pfx = strings.ToLower(c.Prop)
	}
	name := fmt.Sprintf("%s/%s/K%d/late=%s/close=%s/%s%d", pfx, c.Name, c.K, c.Late, c.CloseLeaf, c.Mode, c.Bound)
	if c.MapOrder {
		name += "/maporder"
	}
	return runner.Sc{
		Scenario: explore.Scenario{
			Name: name, Mode: c.Mode, Bound: c.Bound,
			Cfg: vs.Config{MaxSteps: 100000, MapOrder: c.MapOrder},
			New: func() explore.Instance {
				in := &inst{c: c}
				return explore.Instance{Run: in.run, Check: in.check, Outcome: in.outcome}
			},
		},
		Split: true,
	}
}

func Property() runner.Property {
	return runner.Property{
		ID:    "C05",
		Level: "model_checking",
		Rule:  "trees of Subscribe/Clone (depth <= 3) below a real publisher fed by a real root subscription and parent cache; K events (K <= buffer size, so no legitimate overflow) published the way controller.run does; one consumer per leaf reading Cache().Get right after each event; optional late subscriber; all interleavings (S1) for the small trees, deviation-bounded (S2) for the larger ones; oracle at quiescence: every early leaf received exactly the published sequence, the late leaf a contiguous suffix containing everything published after Subscribe returned, Get never older than the event",
		Assumptions: []string{
			"buffer size is not exceeded (K <= EventBufsiz): the premise 'backlog below the buffer' holds by construction",
			"whole-controller variant (cache updated before distribution, lists racing with watch events) is deviation-bounded (c05/controller/* scenarios)",
		},
		Scenarios: func(tier string) []runner.Sc {
			t1 := []hx.Spec{sub(), sub()}
			t2 := []hx.Spec{clone(sub()), sub()}
			t3 := []hx.Spec{clone(clone(sub()))}
			t4 := []hx.Spec{clone(sub(), sub()), sub()}
			t5 := []hx.Spec{clone(clone(clone(sub())), sub())}
			out := []runner.Sc{
				scenario(cfg{Name: "sub", Tree: []hx.Spec{sub()}, K: 2, Mode: "S1"}),
				scenario(cfg{Name: "sub", Tree: []hx.Spec{sub()}, K: 1, Late: "root", Mode: "S1"}),
				scenario(cfg{Name: "sub,sub", Tree: t1, K: 2, Mode: "S2", Bound: 3}),
				scenario(cfg{Name: "clone(sub),sub", Tree: t2, K: 2, Mode: "S2", Bound: 2}),
				scenario(cfg{Name: "clone(clone(sub))", Tree: t3, K: 3, Mode: "S2", Bound: 2}),
				scenario(cfg{Name: "sub,sub", Tree: t1, K: 3, Late: "root", Mode: "S2", Bound: 2}),
				scenario(cfg{Name: "clone(sub),sub", Tree: t2, K: 3, Late: "clone", Mode: "S2", Bound: 2}),
				scenario(cfg{Name: "clone(sub,sub),sub", Tree: t4, K: 4, Mode: "S2", Bound: 2}),
				scenario(cfg{Name: "sub,sub,sub", Tree: []hx.Spec{sub(), sub(), sub()}, K: 2, MapOrder: true, Mode: "S2", Bound: 3}),
			}
			// subscriber churn before the stream (one leaves, one joins), and two updates of one object back to back
			out = append(out,
				scenario(cfg{Name: "sub,sub,clone(sub)/churn", Tree: []hx.Spec{sub(), sub(), clone(sub())}, K: 3, CloseLeaf: "0:sub", Late: "root", Churn: true, Mode: "S2", Bound: 2}),
				scenario(cfg{Name: "sub,clone(sub)/two-updates", Tree: t2[1:2], K: 4, TwoUpdates: true, Mode: "S2", Bound: 2}),
				scenario(cfg{Name: "clone(sub),sub/two-updates", Tree: t2, K: 4, TwoUpdates: true, Mode: "S2", Bound: 2}),
			)
			out = append(out, SiblingScenarios("C05", tier)...)
			// a sibling that stops reading (event buffer modelled as 2): the others still receive everything
			out = append(out, c10.HealthySiblingScenarios("C05")...)
			out = append(out, c03.C05Controller(tier)...)
			if tier == "thorough" {
				out = append(out,
					scenario(cfg{Name: "sub,sub", Tree: t1, K: 2, Mode: "S1"}),
					scenario(cfg{Name: "clone(sub)", Tree: []hx.Spec{clone(sub())}, K: 2, Mode: "S1"}),
					scenario(cfg{Name: "sub", Tree: []hx.Spec{sub()}, K: 2, Late: "root", Mode: "S1"}),
					scenario(cfg{Name: "clone(sub),sub", Tree: t2, K: 3, Mode: "S2", Bound: 3}),
					scenario(cfg{Name: "clone(clone(sub))", Tree: t3, K: 4, Late: "clone", Mode: "S2", Bound: 3}),
					scenario(cfg{Name: "clone(sub,sub),sub", Tree: t4, K: 4, Late: "root", Mode: "S2", Bound: 3}),
					scenario(cfg{Name: "clone(clone(clone(sub))),sub", Tree: t5, K: 4, Late: "clone", Mode: "S2", Bound: 3}),
				)
			}
			return out
		},
	}
}
