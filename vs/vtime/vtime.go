//go:build !vsnative

// Package vtime stands in for package time in transformed code: timers run on
// the scheduler's virtual clock.
package vtime

import (
	"time"

	"verif/vs"
)

type Duration = time.Duration
type Time = time.Time
type Month = time.Month

const (
	Nanosecond  = time.Nanosecond
	Microsecond = time.Microsecond
	Millisecond = time.Millisecond
	Second      = time.Second
	Minute      = time.Minute
	Hour        = time.Hour
)

type Timer struct {
	C <-chan Time
	t *vs.Timer
}

func NewTimer(d Duration) *Timer {
	t := vs.NewTimer(d)
	return &Timer{C: t.C, t: t}
}

func AfterFunc(d Duration, f func()) *Timer {
	t := vs.AfterFunc(d, f)
	return &Timer{t: t}
}

func (t *Timer) Stop() bool            { return t.t.Stop() }
func (t *Timer) Reset(d Duration) bool { return t.t.Reset(d) }

func Now() Time { return vs.Now() }

func Since(t Time) Duration { return Now().Sub(t) }

func After(d Duration) <-chan Time { return NewTimer(d).C }

func Sleep(d Duration) { vs.Recv(NewTimer(d).C) }

func Unix(sec, nsec int64) Time { return time.Unix(sec, nsec) }
