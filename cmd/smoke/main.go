package main

import (
	"fmt"

	"verif/explore"
	"verif/harness/smoke"
	"verif/vs"
)

func main() {
	r := vs.Execute(vs.Config{Trace: true}, explore.First{}, smoke.Scenario)
	for _, l := range r.Trace {
		fmt.Println(l)
	}
	fmt.Printf("steps=%d panics=%v blocked=%v failures=%v allg=%d\n", r.Steps, r.Panics, r.Blocked, r.Failures, r.AllG)
}
