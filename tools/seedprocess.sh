#!/bin/bash
# tools/seedprocess.sh <agent worktree> <PROP> <first new index>: imports _out/1 and _out/2 of a seeding agent as
# seeded/<PROP>-<n>, <PROP>-<n+1>, confirms each with tools/seedverify.sh (package directory and test names are
# derived from the demo file) and runs the property's quick check against it (tools/seedcheck.sh).
W=$1; P=$2; N=$3
cd /verif
for i in 1 2; do
  id=$P-$((N+i-1))
  [ -d $W/_out/$i ] || { echo "== $id: no output"; continue; }
  tools/seedimport.sh $W/_out/$i $id >/dev/null
  demo=$(ls seeded/$id/*_test.go 2>/dev/null | head -1)
  pkg=$(grep -m1 '^package ' $demo | awk '{print $2}' | sed 's/_test$//')
  case $pkg in kcache) dir=.;; join|filter|client|nsname) dir=$pkg;; *) dir=types/$pkg;; esac
  run=$(grep -ho '^func Test[A-Za-z0-9_]*' seeded/$id/*_test.go | sed 's/^func //' | tr '\n' '|' | sed 's/|$//')
  echo "== $id ($dir, $run)"
  timeout 1200 tools/seedverify.sh /verif/seeded/$id $dir "^($run)\$" 2>&1 | tail -4
  tools/seedcheck.sh /verif/seeded/$id/patch.diff $P 2>&1 | grep -v REDUCTION-OFF | cut -c1-400
done
