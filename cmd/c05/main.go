package main

import (
	"verif/harness/c05"
	"verif/runner"
)

func main() { runner.Main(c05.Property()) }
