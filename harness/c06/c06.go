// Package c06 decides C06 (a filtered subscription / clone is exactly its
// filter applied to its parent, nested filters compose as conjunction) and C08
// (Ready means synced, nothing observable before it) on the filterSubscription
// seam: real parent cache + root subscription + publisher, real
// filterSubscription (immediate / deferred, optionally nested below a filtered
// clone), three concurrent drivers (parent history, Refilter script, node
// construction) and observers blocked on Ready().
package c06

import (
	"fmt"
	"sort"
	"strings"
	"time"

	"github.com/boz/kcache"
	"github.com/boz/kcache/filter"
	metav1 "k8s.io/apimachinery/pkg/apis/meta/v1"

	"verif/explore"
	"verif/harness/c09"
	"verif/harness/ctl"
	"verif/harness/fakeapi"
	"verif/harness/hx"
	"verif/runner"
	"verif/vs"
)

type pop struct {
	kind string // create | update | delete | relist
	obj  metav1.Object
	list []metav1.Object
}

func (p pop) String() string {
	if p.kind == "relist" {
		return "relist" + hx.ListString(p.list)
	}
	return p.kind + ":" + hx.ObjString(p.obj)
}

type cfg struct {
	Name    string
	Variant string // fsub | dsub | fclone>sub | fclone>fsub | dclone>sub
	F0, F1  int    // filter of the top node / of the nested fsub
	F2      int    // innermost filter of the depth-3 variant
	Init    []metav1.Object
	Hist    []pop
	Refs    []int // Refilter script for the top node
	// ordering of the drivers (default: all concurrent): RefsAfterHist - the Refilter script starts once the parent's
	// history is over; HistAfterRefs - the history starts once every Refilter call has returned
	RefsAfterHist, HistAfterRefs bool
	SlowNode                     bool // filtered nodes are slower than their parent (2 ms per event)
	Sibling                      bool // a plain sibling subscription, created first, is closed while the history runs
	Mode                         string
	Bound                        int
}

// reference parent content after k parent operations (parent filter Null).
func parentContents(init []metav1.Object, hist []pop) [][]metav1.Object {
	cur := map[string]metav1.Object{}
	snap := func() []metav1.Object {
		var l []metav1.Object
		for _, o := range cur {
			l = append(l, o)
		}
		sort.Slice(l, func(i, j int) bool { return hx.Key(l[i]) < hx.Key(l[j]) })
		return l
	}
	for _, o := range init {
		cur[hx.Key(o)] = o
	}
	out := [][]metav1.Object{snap()}
	for _, p := range hist {
		switch p.kind {
		case "relist":
			seen := map[string]bool{}
			for _, o := range p.list {
				seen[hx.Key(o)] = true
				if c, ok := cur[hx.Key(o)]; !ok || hx.Ver(o) > hx.Ver(c) {
					cur[hx.Key(o)] = o
				}
			}
			for k := range cur {
				if !seen[k] {
					delete(cur, k)
				}
			}
		case "delete":
			delete(cur, hx.Key(p.obj))
		default:
			if c, ok := cur[hx.Key(p.obj)]; !ok || hx.Ver(p.obj) > hx.Ver(c) {
				cur[hx.Key(p.obj)] = p.obj
			}
		}
		out = append(out, snap())
	}
	return out
}

func filtered(l []metav1.Object, fs ...int) string {
	var out []metav1.Object
	for _, o := range l {
		ok := true
		for _, f := range fs {
			if !hx.RefAccept(f, o) {
				ok = false
			}
		}
		if ok {
			out = append(out, o)
		}
	}
	return hx.ListString(out)
}

type observation struct {
	node        string
	list        string
	parentReady bool
	refStarted  int
	refDone     int
}

type inst struct {
	prop       string
	c          cfg
	root       *hx.Root
	top        *hx.Node
	leaf       *hx.Node // node whose cache is the subject (nested: the inner one)
	nodes      []*hx.Node
	refDone    int // Refilter calls that returned nil
	refStarted int
	refErr     []string
	obs        []observation
	// final reads at quiescence
	finalRead   bool
	parentFinal string
	nodeFinal   map[string]string
	readyFinal  map[string]bool
	builtOK     bool
	histDone    bool
}

func (in *inst) spec() []hx.Spec {
	c := in.c
	switch c.Variant {
	case "fsub":
		return []hx.Spec{{Kind: "fsub", Filter: c.F0}}
	case "dsub":
		return []hx.Spec{{Kind: "dsub"}}
	case "fclone>sub":
		return []hx.Spec{{Kind: "fclone", Filter: c.F0, Children: []hx.Spec{{Kind: "sub"}}}}
	case "fclone>fsub":
		return []hx.Spec{{Kind: "fclone", Filter: c.F0, Children: []hx.Spec{{Kind: "fsub", Filter: c.F1}}}}
	case "dclone>sub":
		return []hx.Spec{{Kind: "dclone", Children: []hx.Spec{{Kind: "sub"}}}}
	case "fclone>fclone>fsub":
		return []hx.Spec{{Kind: "fclone", Filter: c.F0, Children: []hx.Spec{{Kind: "fclone", Filter: c.F1, Children: []hx.Spec{{Kind: "fsub", Filter: c.F2}}}}}}
	}
	panic("bad variant")
}

func (in *inst) run() {
	c := in.c
	if c.SlowNode {
		// filtered nodes take 2 ms per parent event (their "update: ..." log line is slow): a burst queues up in front of them
		in.root = hx.NewRootLog(filter.Null(), hx.SlowLog{Prefix: "update: %v events", D: 2 * time.Millisecond})
	} else {
		in.root = hx.NewRoot(filter.Null())
	}
	in.nodeFinal = map[string]string{}
	in.readyFinal = map[string]bool{}
	// driver 1: the parent (first list, then the history)
	histOver, refsOver := make(chan struct{}), make(chan struct{})
	go func() {
		in.root.Init(c.Init)
		if c.HistAfterRefs {
			<-refsOver
		}
		for _, p := range c.Hist {
			switch p.kind {
			case "relist":
				in.root.Relist(p.list)
			case "create":
				in.root.Publish(kcache.NewEvent(kcache.EventTypeCreate, p.obj))
			case "update":
				in.root.Publish(kcache.NewEvent(kcache.EventTypeUpdate, p.obj))
			case "delete":
				in.root.Publish(kcache.NewEvent(kcache.EventTypeDelete, p.obj))
			}
		}
		in.histDone = true
		close(histOver)
	}()
	if c.Sibling {
		// a sibling subscription that is closed while events flow: the others may not lose anything because of it
		if sib, err := in.root.Pub.Subscribe(); err == nil {
			go func() {
				for range sib.Events() {
				}
			}()
			go sib.Close()
		}
	}
	// main: build the nodes (races with the parent becoming ready and with its events)
	in.nodes = hx.Build(in.root.Pub, in.spec(), nil, "", nil)
	in.builtOK = true
	in.top = in.nodes[0]
	in.leaf = in.top
	hx.Walk(in.nodes, func(n *hx.Node) {
		if n.Err != nil {
			vs.Fail("build | %s: %v", n.Path, n.Err)
			in.builtOK = false
			return
		}
		if n.IsLeaf() {
			in.leaf = n
			n := n
			go n.Consume(false)
		}
		// observer: released by Ready(), reads the cache at once
		n2 := n
		go func() {
			<-n2.Ready()
			// a receive on a closed channel completes right after the close (before any other goroutine moves):
			// this is the number of Refilter calls that had returned - hence been processed - when the node became ready
			doneAtClose := in.refDone
			vs.Note(uint64(doneAtClose))
			l, err := n2.Cache().List()
			o := observation{node: n2.Path, list: hx.ListString(l), parentReady: hx.IsClosed(in.root.ReadyCh), refStarted: in.refStarted, refDone: doneAtClose}
			vs.Note(uint64(in.refStarted))
			if err != nil {
				o.list = "error:" + err.Error()
			}
			in.obs = append(in.obs, o)
		}()
	})
	if !in.builtOK {
		return
	}
	// driver 2: the Refilter script on the top node
	go func() {
		if c.RefsAfterHist {
			<-histOver
		}
		defer close(refsOver)
		for _, f := range c.Refs {
			in.refStarted++
			vs.Note(uint64(in.refStarted))
			if err := in.top.Refilter(hx.MkFilter(f)); err != nil {
				in.refErr = append(in.refErr, err.Error())
			} else {
				in.refDone++
			}
		}
	}()
	// final reader: runs when nothing else can happen (virtual time passes only at quiescence)
	if c.SlowNode {
		time.Sleep(time.Second) // the slow nodes' own 2 ms pauses are over long before
	} else {
		time.Sleep(time.Duration(1))
	}
	pl, _ := in.root.Cache.List()
	in.parentFinal = hx.ListString(pl)
	hx.Walk(in.nodes, func(n *hx.Node) {
		l, err := n.Cache().List()
		if err != nil {
			in.nodeFinal[n.Path] = "error:" + err.Error()
		} else {
			in.nodeFinal[n.Path] = hx.ListString(l)
		}
		in.readyFinal[n.Path] = hx.IsClosed(n.Ready())
	})
	in.finalRead = true
}

// filters in force on the path to node n at the end.
func (in *inst) pathFilters(n *hx.Node) []int {
	var fs []int
	for x := n; x != nil; x = x.Parent {
		switch x.Spec.Kind {
		case "fsub", "fclone", "dsub", "dclone":
			f := x.Spec.Filter
			if x.Spec.Kind == "dsub" || x.Spec.Kind == "dclone" {
				f = 1 // deferred nodes start with All (accept none)
			}
			if x == in.top && len(in.c.Refs) > 0 {
				f = in.c.Refs[len(in.c.Refs)-1]
			}
			fs = append(fs, f)
		}
	}
	return fs
}

func (in *inst) check(r *vs.Result) []string {
	var msgs []string
	c := in.c
	add := func(prop, class, format string, args ...interface{}) {
		if prop == in.prop {
			msgs = append(msgs, class+" | "+fmt.Sprintf("[%s] ", c.Name)+fmt.Sprintf(format, args...))
		}
	}
	if !in.builtOK {
		return msgs
	}
	if !in.finalRead || !in.histDone || in.refDone != len(c.Refs) {
		add("C06", "hang", "drivers did not finish: history done=%v refilters %d/%d (errors %v) final read=%v", in.histDone, in.refDone, len(c.Refs), in.refErr, in.finalRead)
		add("C08", "hang", "drivers did not finish: history done=%v refilters %d/%d (errors %v) final read=%v", in.histDone, in.refDone, len(c.Refs), in.refErr, in.finalRead)
		return msgs
	}
	contents := parentContents(c.Init, c.Hist)
	final := contents[len(contents)-1]
	if in.parentFinal != hx.ListString(final) {
		add("C06", "harness", "parent cache %s differs from the reference %s", in.parentFinal, hx.ListString(final))
	}
	deferredNoFilter := (c.Variant == "dsub" || c.Variant == "dclone>sub") && len(c.Refs) == 0
	hx.Walk(in.nodes, func(n *hx.Node) {
		fs := in.pathFilters(n)
		want := filtered(final, fs...)
		got := in.nodeFinal[n.Path]
		if !deferredNoFilter {
			if got != want {
				add("C06", "filtered cache differs from filter(parent)", "node %s holds %s, parent holds %s, filters on the path %v give %s (refilters %v)", n.Path, got, in.parentFinal, names(fs), want, names(c.Refs))
			}
			if !in.readyFinal[n.Path] {
				add("C08", "never ready", "node %s is not ready at quiescence although its parent is ready and a filter was supplied", n.Path)
			}
		} else if in.readyFinal[n.Path] {
			add("C08", "deferred node ready without filter", "node %s became ready although no filter was ever supplied", n.Path)
		}
		if n.IsLeaf() {
			// (C08 c) no event while Ready() is open
			for i, rdy := range n.ReadyAtFirst {
				if !rdy {
					add("C08", "event before ready", "node %s delivered event #%d %s while its Ready() was still open", n.Path, i, n.Received[i])
					break
				}
			}
		}
	})
	// mirror of the leaf: events replayed (version aware) over its content at readiness converge to its cache
	for _, o := range in.obs {
		if !o.parentReady {
			add("C08", "ready before parent", "node %s became ready while the parent was not ready", o.node)
		}
		var n *hx.Node
		hx.Walk(in.nodes, func(x *hx.Node) {
			if x.Path == o.node {
				n = x
			}
		})
		deferred := false
		for x := n; x != nil; x = x.Parent {
			if (x.Spec.Kind == "dsub" || x.Spec.Kind == "dclone") && x == in.top {
				deferred = true
			}
		}
		if deferred && o.refStarted == 0 {
			add("C08", "deferred node ready without filter", "node %s observed ready before any Refilter call had started", o.node)
		}
		// (C08 b) the list read at readiness is some filter_f(P): P a parent content, f a filter set so far
		ok := false
		cands := [][]int{}
		base := in.pathFilters(n)
		// candidate filters for the top node: initial one and every refilter filter
		// filters the top node may legitimately be synced under when its cache is read: the one in force when
		// Ready() closed (every Refilter call that had returned by then has been processed: same goroutine), or a
		// later one whose call had started before the read
		seq := []int{in.top.Spec.Filter}
		if in.top.Spec.Kind == "dsub" || in.top.Spec.Kind == "dclone" {
			seq[0] = -1 // a deferred node is only ready after a supplied filter has been applied
		}
		seq = append(seq, c.Refs...)
		tops := []int{}
		from := o.refDone
		if n != in.top {
			// deeper nodes may lag several of the top node's refilters behind
			if n.Parent != in.top {
				from = 0
			}
		}
		if n != in.top && from > 0 {
			// a node below the refiltered one syncs from that node's cache, whose goroutine may still be
			// processing the last Refilter call that returned
			from--
		}
		for i := from; i <= o.refStarted && i < len(seq); i++ {
			if seq[i] >= 0 {
				tops = append(tops, seq[i])
			}
		}
		for _, tf := range tops {
			fs := []int{tf}
			// other filters on the path (nested nodes)
			for x := n; x != nil && x != in.top; x = x.Parent {
				if x.Spec.Kind == "fsub" || x.Spec.Kind == "fclone" {
					fs = append(fs, x.Spec.Filter)
				}
			}
			cands = append(cands, fs)
		}
		_ = base
		var tried []string
		for _, P := range contents {
			for _, fs := range cands {
				w := filtered(P, fs...)
				tried = append(tried, w)
				if w == o.list {
					ok = true
				}
			}
		}
		if !ok && c.SlowNode && versionsOfSomeInstant(o.list, tried) {
			// every object read is a version the (filtered) parent held, but not all at one instant: the node subscribed,
			// a burst was queued for it, it synced from the parent's newest content and then replayed the queued, older
			// events over it (subscription_filter.go: the select takes "parent ready" before the queued events)
			add("C08", "cache read after readiness mixes instants: events queued before the node synced are replayed over the newer list", "node %s: List() right after Ready() returned %s: each object is a version the parent held at some instant, but no parent content holds them together (candidates %v)", o.node, o.list, uniq(tried))
		} else if !ok {
			add("C08", "cache read at readiness is not a synced content", "node %s: List() right after Ready() returned %s, which is filter(P) for no parent content P under the filter(s) in force then (%d Refilter calls returned, %d started; candidates %v)", o.node, o.list, o.refDone, o.refStarted, uniq(tried))
		}
	}
	// tolerant mirror for C06: leaf events replayed version-aware over the content observed at readiness
	if in.leaf != nil && in.leaf.IsLeaf() {
		for _, o := range in.obs {
			if o.node != in.leaf.Path {
				continue
			}
			got := hx.MirrorTolerant(o.list, in.leaf.Received)
			if got != in.nodeFinal[in.leaf.Path] && !deferredNoFilter {
				add("C06", "event stream does not converge to the cache", "leaf %s: content at readiness %s + events %v gives %s but its cache holds %s", in.leaf.Path, o.list, in.leaf.Received, got, in.nodeFinal[in.leaf.Path])
				add("C02", "filtered subscription: event stream does not converge to the cache", "leaf %s: content at readiness %s + events %v gives %s but its cache holds %s", in.leaf.Path, o.list, in.leaf.Received, got, in.nodeFinal[in.leaf.Path])
			}
		}
	}
	return msgs
}

func uniq(ss []string) []string {
	m := map[string]bool{}
	var out []string
	for _, s := range ss {
		if !m[s] {
			m[s] = true
			out = append(out, s)
		}
	}
	return out
}

func names(fs []int) []string {
	var out []string
	for _, f := range fs {
		out = append(out, hx.FilterNames[f])
	}
	return out
}

func (in *inst) outcome() string {
	return fmt.Sprintf("final=%v ready=%v obs=%v recv=%v", in.nodeFinal, in.readyFinal, in.obs, func() []string {
		if in.leaf != nil {
			return in.leaf.Received
		}
		return nil
	}())
}

func a(v int, l string) metav1.Object { return hx.Pod("ns", "a", fmt.Sprint(v), "l="+l) }
func b(v int, l string) metav1.Object { return hx.Pod("ns", "b", fmt.Sprint(v), "l="+l) }

func scenario(prop string, c cfg) runner.Sc {
	return runner.Sc{
		Scenario: explore.Scenario{
			Name: fmt.Sprintf("%s/%s/%s%d", strings.ToLower(prop), c.Name, c.Mode, c.Bound), Mode: c.Mode, Bound: c.Bound,
			Cfg: vs.Config{Timers: vs.TimersIdle, MaxSteps: 200000},
			New: func() explore.Instance {
				in := &inst{prop: prop, c: c}
				return explore.Instance{Run: in.run, Check: in.check, Outcome: in.outcome}
			},
		},
		Split: true,
	}
}

func configs(tier string) []cfg {
	init1 := []metav1.Object{a(1, "1")}
	init2 := []metav1.Object{a(1, "1"), b(1, "1")}
	h2 := []pop{{kind: "update", obj: a(2, "0")}, {kind: "create", obj: b(3, "1")}}
	h3 := []pop{{kind: "update", obj: a(2, "0")}, {kind: "create", obj: b(3, "1")}, {kind: "delete", obj: a(4, "0")}}
	hr := []pop{{kind: "create", obj: b(2, "1")}, {kind: "relist", list: []metav1.Object{a(3, "0"), b(2, "1")}}}
	d := 2
	out := []cfg{
		{Name: "fsub[l=1]/init-a1/upd-a2(l=0),cre-b3", Variant: "fsub", F0: 2, Init: init1, Hist: h2, Mode: "S2", Bound: d},
		{Name: "fsub[l=1]/refilter(l=0)/upd-a2(l=0),cre-b3", Variant: "fsub", F0: 2, Init: init1, Hist: h2, Refs: []int{3}, Mode: "S2", Bound: d},
		{Name: "fsub[l=1]/refilter(l=0,l=1)/h3", Variant: "fsub", F0: 2, Init: init1, Hist: h3, Refs: []int{3, 2}, Mode: "S2", Bound: d},
		{Name: "fsub[l=1]/refilter(FN)/relist", Variant: "fsub", F0: 2, Init: init1, Hist: hr, Refs: []int{5}, Mode: "S2", Bound: d},
		// widening NSName refilters (by a wildcard id, by a second full id) and back: a Refilter wrongly taken for "equal" is dropped
		{Name: "fsub[name=a]/refilter(name=a|ns/*)/h2", Variant: "fsub", F0: 4, Init: init2, Hist: h2, Refs: []int{9}, Mode: "S2", Bound: d},
		{Name: "fsub[name=a]/refilter(name in a,b ; name=a)/h2", Variant: "fsub", F0: 4, Init: init2, Hist: h2, Refs: []int{8, 4}, Mode: "S2", Bound: d},
		{Name: "dsub/refilter(l=1)/h2", Variant: "dsub", Init: init1, Hist: h2, Refs: []int{2}, Mode: "S2", Bound: d},
		// the first filter supplied to a deferred node accepts everything: it is only ready once it holds the parent's content
		{Name: "dsub/init-a1,b1/refilter(Null)/upd-a2(l=0)", Variant: "dsub", Init: init2, Hist: h2[:1], Refs: []int{0}, Mode: "S2", Bound: d + 1},
		{Name: "dclone>sub/init-a1,b1/refilter(Null)/upd-a2(l=0)", Variant: "dclone>sub", Init: init2, Hist: h2[:1], Refs: []int{0}, Mode: "S2", Bound: d},
		{Name: "dsub/refilter(All,l=1)/h2", Variant: "dsub", Init: init1, Hist: h2, Refs: []int{1, 2}, Mode: "S2", Bound: d},
		{Name: "dsub/norefilter/h2", Variant: "dsub", Init: init1, Hist: h2, Mode: "S2", Bound: d},
		{Name: "fclone[l=1]>sub/refilter(Null)/h2", Variant: "fclone>sub", F0: 2, Init: init1, Hist: h2, Refs: []int{0}, Mode: "S2", Bound: d},
		{Name: "fclone[l=1]>fsub[name=a]/refilter(Null)/h3", Variant: "fclone>fsub", F0: 2, F1: 4, Init: init1, Hist: h3, Refs: []int{0}, Mode: "S2", Bound: d},
		{Name: "dclone>sub/refilter(l=1)/relist", Variant: "dclone>sub", Init: init1, Hist: hr, Refs: []int{2}, Mode: "S2", Bound: d},
		{Name: "fclone[Null]>fclone[l=1]>fsub[name=a]/refilter(l=1)/h3", Variant: "fclone>fclone>fsub", F0: 0, F1: 2, F2: 4, Init: init2, Hist: h3, Refs: []int{2}, Mode: "S2", Bound: d},
		{Name: "fsub[l=1]/init-a1/upd-a2(l=0)", Variant: "fsub", F0: 2, Init: init1, Hist: h2[:1], Mode: "S1"},
		// never-empty views: an unsynced (empty) cache at readiness cannot be mistaken for a synced one
		{Name: "fsub[l=1]/init-a1,b1/upd-a2(l=0)", Variant: "fsub", F0: 2, Init: init2, Hist: h2[:1], Mode: "S1"},
		{Name: "dsub/init-a1,b1/refilter(l=1)/upd-a2(l=0)", Variant: "dsub", Init: init2, Hist: h2[:1], Refs: []int{2}, Mode: "S2", Bound: d + 1},
		{Name: "fclone[l=1]>sub/init-a1,b1/upd-a2(l=0)", Variant: "fclone>sub", F0: 2, Init: init2, Hist: h2[:1], Mode: "S2", Bound: d + 1},
		{Name: "dsub/refilter(l=1)/cre-b", Variant: "dsub", Init: init1, Hist: []pop{{kind: "create", obj: b(2, "1")}}, Refs: []int{2}, Mode: "S1"},
		// the parent is empty when a ready node is refiltered; objects appear afterwards
		{Name: "fsub[l=1]/empty-parent/refilter(l=0)/then-cre-a(l=0),cre-b(l=1)", Variant: "fsub", F0: 2, Hist: []pop{{kind: "create", obj: a(1, "0")}, {kind: "create", obj: b(2, "1")}}, Refs: []int{3}, HistAfterRefs: true, Mode: "S2", Bound: d},
		{Name: "fclone[l=1]>sub/empty-parent/refilter(l=0)/then-cre-a(l=0),cre-b(l=1)", Variant: "fclone>sub", F0: 2, Hist: []pop{{kind: "create", obj: a(1, "0")}, {kind: "create", obj: b(2, "1")}}, Refs: []int{3}, HistAfterRefs: true, Mode: "S2", Bound: d},
		// a deferred node gets its first filter after its parent became ready AND changed again
		{Name: "dsub/init-a1,b1/upd-a2(l=0),cre... then refilter(l=1)", Variant: "dsub", Init: init2, Hist: h2, Refs: []int{2}, RefsAfterHist: true, Mode: "S2", Bound: d},
		{Name: "dclone>sub/init-a1/h3 then refilter(Null)", Variant: "dclone>sub", Init: init1, Hist: h3, Refs: []int{0}, RefsAfterHist: true, Mode: "S2", Bound: d},
		// a relist that drops an object: the Delete it produces carries the cached (same) version
		{Name: "fsub[l=1]/init-a1,b1/relist-drops-b", Variant: "fsub", F0: 2, Init: init2, Hist: []pop{{kind: "relist", list: []metav1.Object{a(1, "1")}}}, Mode: "S2", Bound: d},
		{Name: "fclone[l=1]>fsub[name=a]/init-a1,b1/relist-drops-a", Variant: "fclone>fsub", F0: 2, F1: 4, Init: init2, Hist: []pop{{kind: "relist", list: []metav1.Object{b(1, "1")}}}, Mode: "S2", Bound: d},
		// 30 parent events at once (the buffers in between hold 100) with filtered nodes slower than the parent: every
		// one of them is applied and passed on
		{Name: "fsub[l=1]/init-a1/burst30/slow-node", Variant: "fsub", F0: 2, Init: init1, Hist: burst(30), SlowNode: true, Mode: "S2", Bound: 1},
		{Name: "fclone[l=1]>fsub[Null]/init-a1/burst30/slow-node", Variant: "fclone>fsub", F0: 2, F1: 0, Init: init1, Hist: burst(30), SlowNode: true, Mode: "S2", Bound: 1},
		// events older than the newest object the node has seen: the Delete of a relist carries the (old) cached version,
		// the Create of an upstream widening carries the object's (old) version - versions order one object's history,
		// not the stream
		{Name: "fsub[l=1]/init-a5,b1/relist-drops-b", Variant: "fsub", F0: 2, Init: []metav1.Object{a(5, "1"), b(1, "1")}, Hist: []pop{{kind: "relist", list: []metav1.Object{a(5, "1")}}}, Mode: "S2", Bound: d},
		{Name: "fclone[l=1]>fsub[Null]/init-a5,b1(l=0)/refilter(Null)", Variant: "fclone>fsub", F0: 2, F1: 0, Init: []metav1.Object{a(5, "1"), b(1, "0")}, Refs: []int{0}, Mode: "S2", Bound: d},
		// an object at resourceVersion 0 in the parent when the node syncs / is first filtered
		{Name: "fsub[l=1]/init-a1,b0/upd-a2(l=0)", Variant: "fsub", F0: 2, Init: []metav1.Object{a(1, "1"), b(0, "1")}, Hist: h2[:1], Mode: "S2", Bound: d},
		{Name: "dclone>sub/init-a1,b0/refilter(l=1)", Variant: "dclone>sub", Init: []metav1.Object{a(1, "1"), b(0, "1")}, Hist: h2[:1], Refs: []int{2}, Mode: "S2", Bound: d},
		// a sibling subscription is closed while the history runs
		{Name: "fsub[l=1]/sibling-closed/h3", Variant: "fsub", F0: 2, Init: init1, Hist: h3, Sibling: true, Mode: "S2", Bound: d},
		{Name: "fclone[l=1]>sub/sibling-closed/h3", Variant: "fclone>sub", F0: 2, Init: init1, Hist: h3, Sibling: true, Mode: "S2", Bound: d},
		// one parent event racing with one post-ready Refilter, one deviation more than the rest (the event has to land
		// between the refilter's list of the parent and the end of its processing)
		{Name: "fsub[l=1]/refilter(l=0)/upd-a2(l=0)", Variant: "fsub", F0: 2, Init: init1, Hist: h2[:1], Refs: []int{3}, Mode: "S2", Bound: d + 1},
	}
	if tier == "thorough" {
		for i := range out {
			if out[i].Mode == "S2" {
				out[i].Bound = 3
			}
		}
		out = append(out,
			cfg{Name: "fsub[l=1]/refilter(l=0)/upd-a2(l=0)", Variant: "fsub", F0: 2, Init: init1, Hist: h2[:1], Refs: []int{3}, Mode: "S1"},
			cfg{Name: "fclone[l=1]>fsub[name=a]/refilter(Null)/h2", Variant: "fclone>fsub", F0: 2, F1: 4, Init: init1, Hist: h2, Refs: []int{0}, Mode: "S2", Bound: 4},
		)
	}
	return out
}

// controllerScenarios: the controller clauses of C08 on the whole real controller - Ready() closes only
// after the first list has been applied (the cache read at that instant is a real accepted content), and a
// first list that fails, blocks or is overtaken by Close / context cancellation never makes anything ready.
// versionsOfSomeInstant: every object of the rendered list occurs in one of the rendered candidate contents.
func versionsOfSomeInstant(list string, cands []string) bool {
	have := map[string]bool{}
	for _, c := range cands {
		for _, o := range strings.Fields(strings.Trim(c, "[]")) {
			have[o] = true
		}
	}
	for _, o := range strings.Fields(strings.Trim(list, "[]")) {
		if !have[o] {
			return false
		}
	}
	return true
}

// burst: n parent events over two keys, each changing the content (a flips its label, b comes and goes).
func burst(n int) []pop {
	pod := func(name string, v int, l string) metav1.Object { return hx.Pod("ns", name, fmt.Sprint(v), "l="+l) }
	var h []pop
	for i := 0; i < n; i++ {
		v := i + 2
		switch i % 4 {
		case 0:
			h = append(h, pop{kind: "update", obj: pod("a", v, "0")})
		case 1:
			h = append(h, pop{kind: "create", obj: pod("b", v, "1")})
		case 2:
			h = append(h, pop{kind: "update", obj: pod("a", v, "1")})
		default:
			h = append(h, pop{kind: "delete", obj: pod("b", v, "1")})
		}
	}
	return h
}

func controllerScenarios(tier string) []runner.Sc {
	d := 1
	if tier == "thorough" {
		d = 2
	}
	pre := []ctl.Mut{{Op: "set", Name: "a", Labels: "l=1"}}
	h := []ctl.Mut{{Op: "set", Name: "b", Labels: "l=1"}}
	tree := []hx.Spec{{Kind: "sub"}, {Kind: "clone", Children: []hx.Spec{{Kind: "sub"}, {Kind: "clone", Children: []hx.Spec{{Kind: "sub"}}}}}, {Kind: "fsub", Filter: 2}}
	// readiness is legitimate when the controller applies the list before it notices the cancellation, but then the
	// cache has been given the list (it asks the controller filter about every listed object)
	applied := func(in *ctl.Inst, r *vs.Result) []string {
		o := in.O
		if o.CreateErr != nil || !o.ObserverRan {
			return []string{"harness | controller scenario did not run: " + in.Desc()}
		}
		if o.ReadySeen && o.AcceptsAtReady == 0 {
			return []string{fmt.Sprintf("ready although the first list was never applied | %s: controller Ready() closed before the cache had been given any listed object", in.Desc())}
		}
		return nil
	}
	oracle := func(neverReady bool) func(in *ctl.Inst, r *vs.Result) []string {
		return func(in *ctl.Inst, r *vs.Result) []string {
			o := in.O
			desc := in.Desc()
			if o.CreateErr != nil || !o.ObserverRan {
				return []string{"harness | controller scenario did not run: " + desc}
			}
			var msgs []string
			if neverReady {
				if o.ReadyAtRead || o.ReadySeen {
					msgs = append(msgs, fmt.Sprintf("ready although the first list was never applied | %s: controller Ready() closed", desc))
				}
				for p, rdy := range o.NodeReady {
					if rdy {
						msgs = append(msgs, fmt.Sprintf("ready although the first list was never applied | %s: node %s Ready() closed", desc, p))
					}
				}
			} else if o.ReadySeen {
				va, vb := fmt.Sprint(in.C.StartRV+1), fmt.Sprint(in.C.StartRV+2)
				ok := o.ReadyList == ctl.Accepted(in.C.Filter, []metav1.Object{hx.Pod("ns", "a", va, "l=1")}) ||
					o.ReadyList == ctl.Accepted(in.C.Filter, []metav1.Object{hx.Pod("ns", "a", va, "l=1"), hx.Pod("ns", "b", vb, "l=1")})
				if !ok {
					msgs = append(msgs, fmt.Sprintf("cache read at readiness is not a synced content | %s: controller List() right after Ready() returned %s", desc, o.ReadyList))
				}
			}
			return msgs
		}
	}
	mk := func(name string, c ctl.Cfg, never bool) runner.Sc {
		c.Name, c.Period, c.Tree, c.Pre, c.Hist, c.Mode, c.Bound = "controller/"+name, 3*time.Second, tree, pre, h, "S2", d
		if c.ReadAt == 0 {
			c.ReadAt = 2 * time.Second
		}
		return ctl.Scenario("C08", c, oracle(never))
	}
	return []runner.Sc{
		mk("first-list-ok", ctl.Cfg{}, false),
		mk("first-list-holds-a-version-0-object", ctl.Cfg{StartRV: -1}, false),
		mk("first-list-without-resourceVersion", ctl.Cfg{ListFaults: map[int]fakeapi.ListFault{1: {Kind: "norv"}}}, false),
		mk("first-list-slow", ctl.Cfg{ListFaults: map[int]fakeapi.ListFault{1: {Latency: time.Second}}}, false),
		mk("first-list-error", ctl.Cfg{ListFaults: map[int]fakeapi.ListFault{1: {Kind: "error"}}}, true),
		mk("first-list-error+emptylist", ctl.Cfg{ListFaults: map[int]fakeapi.ListFault{1: {Kind: "error+list"}}}, true),
		mk("first-list-with-a-foreign-item", ctl.Cfg{ListFaults: map[int]fakeapi.ListFault{1: {Kind: "nonobjects"}}}, true),
		mk("first-list-nonlist", ctl.Cfg{ListFaults: map[int]fakeapi.ListFault{1: {Kind: "nonlist"}}}, true),
		mk("close-while-first-list-blocks", ctl.Cfg{ListFaults: map[int]fakeapi.ListFault{1: {Kind: "block"}}, Close: ctl.CloseSpec{Kind: "close", AfterMut: -1, At: time.Second}}, true),
		// the context ends at the instant the first list returns: whichever of cache and controller notices first,
		// nothing becomes ready without the list having been given to the cache
		func() runner.Sc {
			c := ctl.Cfg{CountAccepts: true, CancelOnList: 1}
			c.Name, c.Period, c.Pre, c.Mode, c.Bound, c.ReadAt = "controller/ctx-cancel-as-the-first-list-returns", 3*time.Second, pre, "S2", d+2, 2*time.Second
			return ctl.Scenario("C08", c, applied)
		}(),
		mk("ctx-cancel-while-first-list-blocks", ctl.Cfg{ListFaults: map[int]fakeapi.ListFault{1: {Kind: "block"}}, Close: ctl.CloseSpec{Kind: "ctx", AfterMut: -1, At: time.Second}}, true),
	}
}

// C02FilterScenarios: the filtered-subscription half of C02 - a consumer that replays a filtered subscription's
// events over the content it read at readiness ends with that subscription's cache, whatever parent events and
// Refilter calls interleave (only that clause is judged under C02; the others are C06's and C08's).
func C02FilterScenarios(tier string) []runner.Sc {
	var out []runner.Sc
	for _, c := range configs(tier) {
		if len(c.Refs) > 0 && len(c.Hist) > 0 {
			out = append(out, scenario("C02", c))
		}
	}
	return out
}

func Property(id string) runner.Property {
	rule := map[string]string{
		"C06": "oracle at quiescence (read by a goroutine released when nothing else can happen): every node's cache equals the reference filter(s) on its path applied to the parent's cache at the parent's versions (nested: conjunction), and the leaf's event stream replayed over its content at readiness converges to its cache",
		"C08": "oracle: a node observed ready implies the parent is ready and (deferred) a Refilter call has started; List() read immediately after Ready() equals filter_f(P) for a parent content P and a filter f set so far; no event is received while Ready() is open; every node with a filter is ready at quiescence, a deferred node without filter never is",
	}
	return runner.Property{
		ID:           id,
		Level:        "model_checking",
		QuickBudgetS: 600,
		Rule:         "filterSubscription seam (real parent cache, root subscription, publisher, filterSubscription immediate/deferred, nested under filtered clones); three concurrent drivers: parent first list + history (creates, label flips in and out of the filter, deletes, relist), Refilter script (incl. back to an earlier filter and a non-comparable FN), node construction; all interleavings (S1) for the smallest, deviation-bounded (S2, d<=2 quick / 3 thorough) otherwise; " + rule[id],
		Assumptions: []string{
			"histories of <= 3 parent operations over 2 keys, <= 2 Refilter calls, nesting depth <= 2",
			"the controller-level clauses of C08 (Ready only after the first list is applied; failed first list never ready) are checked by the whole-controller scenarios of C03/C14",
		},
		Scenarios: func(tier string) []runner.Sc {
			var out []runner.Sc
			for _, c := range configs(tier) {
				out = append(out, scenario(id, c))
			}
			sort.SliceStable(out, func(i, j int) bool { return out[i].Mode == "S2" && out[j].Mode != "S2" })
			if id == "C08" {
				// joins: ready only after source and destination are (cheap: first, the rest inherits their unused time)
				out = append(c09.ReadinessScenarios("C08", tier), out...)
				out = append(out, controllerScenarios(tier)...)
			}
			return out
		},
	}
}
