//go:build verif

package pod

// Added to the typed package by the verification overlay only (never in /repo).

import "github.com/boz/kcache"

// VNewController wraps an untyped controller exactly like BuildController does.
func VNewController(parent kcache.Controller) Controller { return newController(parent) }
