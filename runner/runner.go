// Package runner is the command-line driver shared by every property check:
// it shards scenarios over worker processes, merges their statistics,
// classifies violations against known_findings.json, writes replay files and
// the evidence file, and sets the exit code (0 held, 1 violation, 2 engine error).
package runner

import (
	"crypto/sha1"
	"encoding/json"
	"flag"
	"fmt"
	"os"
	"os/exec"
	"path/filepath"
	"regexp"
	"runtime"
	"runtime/pprof"
	"sort"
	"strconv"
	"strings"
	"syscall"
	"time"

	"verif/explore"
	"verif/vs"
)

// VerifDir is where known_findings.json, evidence/ and replays/ live (the directory of the check script).
var VerifDir = func() string {
	if d := os.Getenv("VERIF_DIR"); d != "" {
		return d
	}
	return "/verif"
}()

// Sc is a scenario plus how it is scheduled over workers.
type Sc struct {
	explore.Scenario
	Split     bool // shard inside the scenario (large trees); otherwise whole scenario goes to one worker
	BudgetS   int  // per-scenario wall-clock cap in seconds (0 = tier default); hitting it is reported, never a violation
	TableBits uint // log2 of the shared visited table size (0 = 24)
	// Exists: reachability obligations - for each entry at least one explored execution of this scenario must report
	// the harness counter ReachKey(scenario name, entry) (judged only when the scenario was explored completely).
	// Used where a universal oracle would need a fairness assumption: "some schedule within the bound makes progress".
	Exists []string
}

// ReachKey is the harness counter an execution reports when it fulfils a reachability obligation.
func ReachKey(scenario, what string) string { return "reach:" + scenario + ": " + what }

const existsPrefix = "exists :: "

// Property describes one check.
type Property struct {
	ID          string
	Level       string // evidence level
	Scenarios   func(tier string) []Sc
	Assumptions []string
	Rule        string
	// Extra lets sequential (non-scheduler) parts contribute: it runs in the parent, returns extra coverage and violations.
	Extra func(tier string, seed int64) *ExtraResult
	// wall-clock budgets of a whole tier run in seconds (0 = default 150 / 2400); running out of budget is
	// reported as exhaustive:false, never as a violation
	QuickBudgetS, ThoroughBudgetS int
}

type ExtraResult struct {
	Name        string
	States      int64
	Transitions int64
	Evaluations int64
	Distinct    int64
	Samples     []interface{}
	Violations  []explore.Violation
	Complete    bool
	Note        string
	Coverage    map[string]interface{}
}

type KnownFinding struct {
	Property string `json:"property"`
	ID       string `json:"id"`
	Match    string `json:"match"` // regexp on "<scenario> :: <first message>"
	What     string `json:"what"`
}

type knownFile struct {
	Findings []KnownFinding `json:"findings"`
	Fixed    []string       `json:"fixed"`
}

func loadKnown() []KnownFinding {
	b, err := os.ReadFile(filepath.Join(VerifDir, "known_findings.json"))
	if err != nil {
		return nil
	}
	var k knownFile
	if err := json.Unmarshal(b, &k); err != nil {
		fmt.Fprintf(os.Stderr, "ENGINE-ERROR: known_findings.json: %v\n", err)
		os.Exit(2)
	}
	return k.Findings
}

type workerOut struct {
	Stats []*explore.Stats `json:"stats"`
}

// tierBudget is the wall-clock budget of one whole tier run (all scenarios).
func tierBudget(p Property, tier string) int {
	if tier == "thorough" {
		if p.ThoroughBudgetS > 0 {
			return p.ThoroughBudgetS
		}
		return 2400
	}
	if p.QuickBudgetS > 0 {
		return p.QuickBudgetS
	}
	return 600
}

func Main(p Property) {
	tier := flag.String("tier", os.Getenv("VERIF_TIER"), "quick|thorough")
	worker := flag.Int("worker", -1, "internal: worker index")
	nshards := flag.Int("nshards", 0, "number of workers")
	out := flag.String("out", "", "internal: worker output file")
	tmpdir := flag.String("tmp", "", "internal: directory of the shared visited tables")
	replay := flag.String("replay", "", "replay file")
	evidence := flag.String("evidence", filepath.Join(VerifDir, "evidence", p.ID+".json"), "evidence file")
	only := flag.String("scenario", "", "regexp: only scenarios whose name matches")
	list := flag.Bool("list", false, "list scenarios")
	trace := flag.Bool("trace", false, "print the default-schedule trace of the first selected scenario")
	flag.Parse()
	if *tier == "" {
		*tier = "quick"
	}
	seed, _ := strconv.ParseInt(os.Getenv("VERIF_SEED"), 10, 64)
	if *nshards == 0 {
		*nshards = runtime.NumCPU()
		if *nshards > 16 {
			*nshards = 16
		}
	}
	scs := p.Scenarios(*tier)
	if *only != "" {
		re := regexp.MustCompile(*only)
		var f []Sc
		for _, s := range scs {
			if re.MatchString(s.Name) {
				f = append(f, s)
			}
		}
		scs = f
	}
	// VERIF_SEED permutes the order scenarios are assigned to workers; never what is explored.
	if seed != 0 && len(scs) > 1 {
		rot := int(seed % int64(len(scs)))
		if rot < 0 {
			rot = -rot
		}
		scs = append(scs[rot:], scs[:rot]...)
	}
	if *list {
		for _, s := range scs {
			fmt.Println(s.Name)
		}
		return
	}
	if *trace {
		sc := scs[0].Scenario
		sc.Mode = "D0"
		cfg := sc.Cfg
		cfg.Trace = true
		inst := sc.New()
		r := vs.Execute(cfg, explore.First{}, inst.Run)
		for _, l := range r.Trace {
			fmt.Println(l)
		}
		fmt.Println("check:", inst.Check(r), "outcome:", inst.Outcome())
		return
	}
	if *replay != "" {
		os.Exit(doReplay(p, *replay))
	}
	if *worker >= 0 {
		if pf := os.Getenv("VS_CPUPROFILE"); pf != "" {
			f, _ := os.Create(fmt.Sprintf("%s.%d", pf, *worker))
			pprof.StartCPUProfile(f)
			defer pprof.StopCPUProfile()
		}
		runWorker(p, scs, *tier, *worker, *nshards, *out, *tmpdir)
		return
	}
	os.Exit(runParent(p, scs, *tier, seed, *nshards, *evidence, *only))
}

func runWorker(p Property, scs []Sc, tier string, w, n int, out string, tmp string) {
	var res workerOut
	start := time.Now()
	total := time.Duration(tierBudget(p, tier)) * time.Second
	nsplit := 0
	for _, sc := range scs {
		if sc.Split {
			nsplit++
		}
	}
	done := 0
	for k, sc := range scs {
		if !sc.Split && k%n != w {
			continue
		}
		// fair share of what is left of the tier budget (split scenarios are worked on by all workers together)
		left := total - time.Since(start)
		share := left
		if sc.Split && nsplit-done > 0 {
			share = left / time.Duration(nsplit-done)
			if tier != "thorough" {
				// the quick tier is sized to complete: its budget is a cap for the whole run, not a ration per scenario
				// (a ration made early scenarios time out on a loaded machine although the run as a whole had time)
				if gen := left - time.Duration(nsplit-done-1)*time.Second; gen > share {
					share = gen
				}
			}
			done++
		}
		if sc.BudgetS > 0 && time.Duration(sc.BudgetS)*time.Second < share {
			share = time.Duration(sc.BudgetS) * time.Second
		}
		if share < time.Second {
			share = time.Second
		}
		opt := explore.Options{Deadline: time.Now().Add(share)}
		if sc.Split && n > 1 {
			opt.Shard, opt.NShards = w, n
			bits := sc.TableBits
			if bits == 0 {
				bits = 24
			}
			t, err := explore.OpenTable(filepath.Join(tmp, fmt.Sprintf("table%d", k)), bits)
			if err != nil {
				fmt.Fprintf(os.Stderr, "ENGINE-ERROR: shared table: %v\n", err)
				os.Exit(2)
			}
			opt.Table = t
		}
		st := explore.Explore(sc.Scenario, opt)
		if opt.Table != nil {
			opt.Table.Close()
		}
		// keep the transmitted outcome set bounded
		res.Stats = append(res.Stats, st)
	}
	type wire struct {
		*explore.Stats
		Outcomes map[string]int64 `json:"outcomes"`
	}
	var ws []wire
	for _, st := range res.Stats {
		o := st.Outcomes
		if len(o) > 5000 {
			o2 := map[string]int64{}
			i := 0
			for k, v := range o {
				o2[k] = v
				i++
				if i >= 5000 {
					break
				}
			}
			o = o2
		}
		ws = append(ws, wire{st, o})
	}
	b, _ := json.Marshal(map[string]interface{}{"stats": ws})
	if err := os.WriteFile(out, b, 0o644); err != nil {
		fmt.Fprintf(os.Stderr, "ENGINE-ERROR: worker write: %v\n", err)
		os.Exit(2)
	}
}

type merged struct {
	explore.Stats
	Outcomes    map[string]int64
	OutcomesCap bool
	Shards      int
}

func runParent(p Property, scs []Sc, tier string, seed int64, n int, evidencePath, only string) int {
	start := time.Now()
	reapStaleScratch()
	tmp, err := os.MkdirTemp(scratchBase(), fmt.Sprintf("vrun-%s-p%d-", p.ID, os.Getpid()))
	if err != nil {
		fmt.Fprintf(os.Stderr, "ENGINE-ERROR: %v\n", err)
		return 2
	}
	defer os.RemoveAll(tmp)
	if len(scs) < n && !anySplit(scs) {
		n = len(scs)
	}
	type proc struct {
		cmd *exec.Cmd
		out string
	}
	var procs []proc
	for i := 0; i < n && len(scs) > 0; i++ {
		outf := filepath.Join(tmp, fmt.Sprintf("w%d.json", i))
		args := []string{"-worker", strconv.Itoa(i), "-nshards", strconv.Itoa(n), "-tier", tier, "-out", outf, "-tmp", tmp}
		if only != "" {
			args = append(args, "-scenario", only)
		}
		cmd := exec.Command(os.Args[0], args...)
		cmd.SysProcAttr = &syscall.SysProcAttr{Pdeathsig: syscall.SIGKILL}
		cmd.Env = append(os.Environ(), "GOMAXPROCS=1", "GOGC=200")
		cmd.Stdout = os.Stderr
		cmd.Stderr = os.Stderr
		if err := cmd.Start(); err != nil {
			fmt.Fprintf(os.Stderr, "ENGINE-ERROR: start worker: %v\n", err)
			return 2
		}
		procs = append(procs, proc{cmd, outf})
	}
	engineErr, reductionOff := false, false
	for _, pr := range procs {
		if err := pr.cmd.Wait(); err != nil {
			if ee, ok := err.(*exec.ExitError); ok && ee.ExitCode() == 3 && os.Getenv("VS_NO_EAGER") == "" {
				reductionOff = true
				continue
			}
			fmt.Fprintf(os.Stderr, "ENGINE-ERROR: worker failed: %v\n", err)
			engineErr = true
		}
	}
	if reductionOff && !engineErr {
		// the one-shot-reply reduction does not apply to this tree: explore again without the eager rules
		fmt.Fprintf(os.Stderr, "note: restarting the exploration with the eager reductions switched off\n")
		os.Setenv("VS_NO_EAGER", "1")
		vs.NoEager = true // this process too (it runs the default-schedule sample and replays)
		return runParent(p, scs, tier, seed, n, evidencePath, only)
	}
	if engineErr {
		return 2
	}
	byName := map[string]*merged{}
	counters := map[string]int64{}
	var order []string
	for _, pr := range procs {
		b, err := os.ReadFile(pr.out)
		if err != nil {
			fmt.Fprintf(os.Stderr, "ENGINE-ERROR: worker output: %v\n", err)
			return 2
		}
		var w struct {
			Stats []struct {
				explore.Stats
				Outcomes map[string]int64 `json:"outcomes"`
			} `json:"stats"`
		}
		if err := json.Unmarshal(b, &w); err != nil {
			fmt.Fprintf(os.Stderr, "ENGINE-ERROR: worker output: %v\n", err)
			return 2
		}
		for _, st := range w.Stats {
			m := byName[st.Scenario]
			if m == nil {
				m = &merged{Outcomes: map[string]int64{}}
				m.Stats = st.Stats
				m.Stats.Violations = nil
				m.Stats.Executions, m.Stats.Pruned, m.Stats.States, m.Stats.Transitions, m.Stats.ViolationCount, m.Stats.StepLimitHits = 0, 0, 0, 0, 0, 0
				m.Complete = true
				byName[st.Scenario] = m
				order = append(order, st.Scenario)
			}
			m.Shards++
			m.Executions += st.Executions
			m.Pruned += st.Pruned
			m.States += st.States
			m.Transitions += st.Transitions
			m.ViolationCount += st.ViolationCount
			m.StepLimitHits += st.StepLimitHits
			if st.MaxDepth > m.MaxDepth {
				m.MaxDepth = st.MaxDepth
			}
			if st.MaxGoroutines > m.MaxGoroutines {
				m.MaxGoroutines = st.MaxGoroutines
			}
			if st.WallS > m.WallS {
				m.WallS = st.WallS
			}
			if !st.Complete {
				m.Complete = false
				if st.CapHit != "" {
					m.CapHit = st.CapHit
				}
			}
			for k, v := range st.Outcomes {
				m.Outcomes[k] += v
			}
			for k, v := range st.Stats.Counters {
				counters[k] += v
			}
			for _, v := range st.Stats.Violations {
				found := false
				for i := range m.Violations {
					if m.Violations[i].Signature == v.Signature {
						found = true
						if v.Deviations < m.Violations[i].Deviations || (v.Deviations == m.Violations[i].Deviations && len(v.Choices) < len(m.Violations[i].Choices)) {
							m.Violations[i] = v
						}
					}
				}
				if !found {
					m.Violations = append(m.Violations, v)
				}
			}
		}
	}
	sort.Strings(order)

	known := loadKnown()
	knownRe := make([]*regexp.Regexp, len(known))
	for i, k := range known {
		knownRe[i] = regexp.MustCompile(k.Match)
	}
	knownHit := map[int]bool{}
	var newViol []explore.Violation
	var scen []map[string]interface{}
	var totStates, totTrans, totExec int64
	allComplete := true
	var samples []interface{}
	distinct := 0
	for _, name := range order {
		m := byName[name]
		totStates += m.States
		totTrans += m.Transitions
		totExec += m.Executions
		distinct += len(m.Outcomes)
		if !m.Complete {
			allComplete = false
		}
		so := sampleKeys(m.Outcomes, 3)
		entry := map[string]interface{}{
			"name": name, "mode": m.Mode, "bound": m.Bound, "executions": m.Executions, "pruned_revisits": m.Pruned,
			"states": m.States, "transitions": m.Transitions, "max_depth": m.MaxDepth, "max_goroutines": m.MaxGoroutines,
			"distinct_outcomes": len(m.Outcomes), "complete": m.Complete, "wall_s": round2(m.WallS), "violating_executions": m.ViolationCount,
		}
		if m.CapHit != "" {
			entry["cap_hit"] = m.CapHit
		}
		if m.StepLimitHits > 0 {
			entry["step_limit_hits"] = m.StepLimitHits
		}
		scen = append(scen, entry)
		if len(samples) < 6 && len(so) > 0 {
			samples = append(samples, map[string]interface{}{"scenario": name, "terminal_outcome": so[0]})
		}
		for _, v := range m.Violations {
			isKnown := false
			for i, k := range known {
				if k.Property == p.ID && knownRe[i].MatchString(v.Signature) {
					knownHit[i] = true
					isKnown = true
					break
				}
			}
			if !isKnown {
				newViol = append(newViol, v)
			}
		}
	}

	// reachability obligations (counters are summed over all executions of all workers)
	for _, sc := range scs {
		m := byName[sc.Name]
		if m == nil || !m.Complete {
			continue
		}
		for _, what := range sc.Exists {
			if counters[ReachKey(sc.Name, what)] > 0 {
				continue
			}
			v := explore.Violation{Scenario: sc.Name, Signature: existsPrefix + sc.Name + " :: " + what,
				Messages: []string{fmt.Sprintf("unreachable | none of the %d explored executions of this scenario (all schedules within its bound) reached: %s", m.Executions, what)}}
			isKnown := false
			for i, k := range known {
				if k.Property == p.ID && knownRe[i].MatchString(v.Signature) {
					knownHit[i] = true
					isKnown = true
					break
				}
			}
			if !isKnown {
				newViol = append(newViol, v)
			}
		}
	}

	// one concrete schedule written out: the default schedule of the first scenario (what a "case" looks like)
	if len(scs) > 0 {
		sc := scs[0].Scenario
		cfg := sc.Cfg
		cfg.Trace = true
		inst := sc.New()
		r := vs.Execute(cfg, explore.First{}, inst.Run)
		tr := r.Trace
		if len(tr) > 24 {
			tr = append(append([]string{}, tr[:24]...), fmt.Sprintf("... (%d steps in all)", len(r.Trace)))
		}
		samples = append(samples, map[string]interface{}{"scenario": sc.Name, "default_schedule": tr})
	}
	var extra *ExtraResult
	if p.Extra != nil && only == "" {
		extra = p.Extra(tier, seed)
		totStates += extra.States
		totTrans += extra.Transitions
		totExec += extra.Evaluations
		distinct += int(extra.Distinct)
		if !extra.Complete {
			allComplete = false
		}
		for _, v := range extra.Violations {
			isKnown := false
			for i, k := range known {
				if k.Property == p.ID && knownRe[i].MatchString(v.Signature) {
					knownHit[i] = true
					isKnown = true
					break
				}
			}
			if !isKnown {
				newViol = append(newViol, v)
			}
		}
		samples = append(samples, extra.Samples...)
	}

	for i, k := range known {
		if knownHit[i] {
			fmt.Printf("KNOWN-FINDING: property=%s %s: %s\n", p.ID, k.ID, k.What)
		}
	}

	// confirm and persist new violations
	exit := 0
	os.MkdirAll(filepath.Join(VerifDir, "replays"), 0o755)
	sort.Slice(newViol, func(i, j int) bool {
		if newViol[i].Deviations != newViol[j].Deviations {
			return newViol[i].Deviations < newViol[j].Deviations
		}
		return len(newViol[i].Choices) < len(newViol[j].Choices)
	})
	reported := 0
	{
		// one report per signature (the sort above puts the smallest example first)
		seen := map[string]bool{}
		var uniq []explore.Violation
		for _, v := range newViol {
			if !seen[v.Signature] {
				seen[v.Signature] = true
				uniq = append(uniq, v)
			}
		}
		newViol = uniq
	}
	for _, v := range newViol {
		if reported >= 12 {
			break
		}
		path := writeReplay(p, tier, v)
		fmt.Printf("VIOLATION property=%s replay=%s\n", p.ID, path)
		fmt.Printf("  %s\n", v.String())
		reported++
		exit = 1
	}

	cov := map[string]interface{}{
		"states":                        totStates,
		"transitions":                   totTrans,
		"traces_validated_against_impl": totExec,
		"samples":                       samples,
		"exhaustive":                    allComplete,
		"executions":                    totExec,
		"distinct_terminal_outcomes":    distinct,
		"scenarios":                     scen,
		"workers":                       n,
		"rule":                          p.Rule,
	}
	if len(counters) > 0 {
		cov["harness_counters"] = counters
		// explicit-state checks report abstract states / checked transitions of the real object
		if v, ok := counters["mc_states"]; ok {
			cov["scheduler_states"] = cov["states"]
			cov["states"] = v
		}
		if v, ok := counters["mc_transitions"]; ok {
			cov["scheduler_transitions"] = cov["transitions"]
			cov["transitions"] = v
		}
	}
	if extra != nil {
		cov["sequential_part"] = map[string]interface{}{"name": extra.Name, "states": extra.States, "transitions": extra.Transitions, "evaluations": extra.Evaluations, "distinct": extra.Distinct, "complete": extra.Complete, "note": extra.Note, "coverage": extra.Coverage}
	}
	if v, ok := cov["states"].(int64); ok && v == 0 {
		cov["states"] = 1
	}
	if len(samples) == 0 {
		cov["samples"] = []interface{}{"(no scenario ran)"}
	}
	if p.Level != "model_checking" {
		cov["evaluations"] = totExec
		cov["distinct_nontrivial"] = distinct
	}
	var kf []string
	for i, k := range known {
		if knownHit[i] {
			kf = append(kf, k.ID)
		}
	}
	cov["known_findings_seen"] = kf
	ev := map[string]interface{}{
		"property_id": p.ID,
		"tier":        tier,
		"seed":        seed,
		"level":       p.Level,
		"coverage":    cov,
		"assumptions": p.Assumptions,
		"wall_s":      round2(time.Since(start).Seconds()),
		"violations":  len(newViol),
	}
	b, _ := json.MarshalIndent(ev, "", " ")
	os.MkdirAll(filepath.Dir(evidencePath), 0o755)
	if err := os.WriteFile(evidencePath, b, 0o644); err != nil {
		fmt.Fprintf(os.Stderr, "ENGINE-ERROR: evidence: %v\n", err)
		return 2
	}
	fmt.Printf("%s tier=%s scenarios=%d executions=%d states=%v transitions=%v distinct_outcomes=%d exhaustive=%v violations=%d wall=%.1fs\n",
		p.ID, tier, len(order), totExec, cov["states"], cov["transitions"], distinct, allComplete, len(newViol), time.Since(start).Seconds())
	return exit
}

func anySplit(scs []Sc) bool {
	for _, s := range scs {
		if s.Split {
			return true
		}
	}
	return false
}

func round2(f float64) float64 { return float64(int64(f*100)) / 100 }

// reapStaleScratch removes the scratch directories (visited-state tables; in /dev/shm they are RAM) of runs whose
// process no longer exists - a run that was killed cannot remove its own.
func reapStaleScratch() {
	ents, err := os.ReadDir(scratchBase())
	if err != nil {
		return
	}
	for _, e := range ents {
		n := e.Name()
		if !e.IsDir() || !strings.HasPrefix(n, "vrun-") {
			continue
		}
		i := strings.LastIndex(n, "-p")
		if i < 0 {
			continue
		}
		j := strings.Index(n[i+2:], "-")
		if j < 0 {
			continue
		}
		pid, err := strconv.Atoi(n[i+2 : i+2+j])
		if err != nil || pid <= 0 {
			continue
		}
		if _, err := os.Stat(fmt.Sprintf("/proc/%d", pid)); os.IsNotExist(err) {
			os.RemoveAll(filepath.Join(scratchBase(), n))
		}
	}
}

func scratchBase() string {
	if d := os.Getenv("VERIF_SCRATCH"); d != "" {
		return d
	}
	if st, err := os.Stat("/dev/shm"); err == nil && st.IsDir() {
		return "/dev/shm"
	}
	return "/var/tmp"
}

func sampleKeys(m map[string]int64, n int) []string {
	keys := make([]string, 0, len(m))
	for k := range m {
		keys = append(keys, k)
	}
	sort.Strings(keys)
	if len(keys) > n {
		step := len(keys) / n
		var out []string
		for i := 0; i < n; i++ {
			out = append(out, keys[i*step])
		}
		return out
	}
	return keys
}

type replayFile struct {
	Property string            `json:"property"`
	Tier     string            `json:"tier"`
	V        explore.Violation `json:"violation"`
}

func writeReplay(p Property, tier string, v explore.Violation) string {
	h := sha1.Sum([]byte(v.Signature + fmt.Sprint(v.Choices)))
	path := filepath.Join(VerifDir, "replays", fmt.Sprintf("%s-%x.json", p.ID, h[:5]))
	// attach a readable trace by replaying once here (also a determinism check)
	for _, sc := range allScenarios(p) {
		if strings.HasPrefix(v.Signature, existsPrefix) {
			break // nothing to replay: the violation is the absence of an execution (the replay re-explores the scenario)
		}
		if sc.Name == v.Scenario {
			m1, tr, _ := explore.Replay(sc.Scenario, v.Choices)
			m2, _, _ := explore.Replay(sc.Scenario, v.Choices)
			if strings.Join(m1, "|") != strings.Join(m2, "|") || len(m1) == 0 {
				fmt.Fprintf(os.Stderr, "ENGINE-ERROR: violation of %s does not replay deterministically:\n first: %v\n second: %v\n original: %v\n", v.Scenario, m1, m2, v.Messages)
				os.Exit(2)
			}
			v.Trace = tr
			break
		}
	}
	b, _ := json.MarshalIndent(replayFile{p.ID, tier, v}, "", " ")
	os.WriteFile(path, b, 0o644)
	return path
}

func allScenarios(p Property) []Sc {
	var out []Sc
	seen := map[string]bool{}
	for _, t := range []string{"quick", "thorough"} {
		for _, s := range p.Scenarios(t) {
			if !seen[s.Name] {
				seen[s.Name] = true
				out = append(out, s)
			}
		}
	}
	return out
}

func doReplay(p Property, path string) int {
	b, err := os.ReadFile(path)
	if err != nil {
		fmt.Fprintf(os.Stderr, "ENGINE-ERROR: %v\n", err)
		return 2
	}
	var rf replayFile
	if err := json.Unmarshal(b, &rf); err != nil {
		fmt.Fprintf(os.Stderr, "ENGINE-ERROR: %v\n", err)
		return 2
	}
	for _, sc := range allScenarios(p) {
		if sc.Name != rf.V.Scenario {
			continue
		}
		if strings.HasPrefix(rf.V.Signature, existsPrefix) {
			// re-explore the scenario in this process and look for the execution again
			st := explore.Explore(sc.Scenario, explore.Options{Deadline: time.Now().Add(30 * time.Minute)})
			what := strings.TrimPrefix(rf.V.Signature, existsPrefix+sc.Name+" :: ")
			if !st.Complete {
				fmt.Fprintf(os.Stderr, "ENGINE-ERROR: re-exploration of %s incomplete\n", sc.Name)
				return 2
			}
			if st.Counters[ReachKey(sc.Name, what)] > 0 {
				fmt.Println("replay: no violation on this tree")
				return 0
			}
			fmt.Printf("VIOLATION property=%s replay=%s\n", p.ID, path)
			fmt.Printf("  unreachable | none of the %d explored executions reached: %s\n", st.Executions, what)
			return 1
		}
		m1, tr, _ := explore.Replay(sc.Scenario, rf.V.Choices)
		m2, _, _ := explore.Replay(sc.Scenario, rf.V.Choices)
		for _, l := range tr {
			fmt.Println(l)
		}
		if strings.Join(m1, "|") != strings.Join(m2, "|") {
			fmt.Fprintf(os.Stderr, "ENGINE-ERROR: replay not deterministic\n")
			return 2
		}
		if len(m1) > 0 {
			fmt.Printf("VIOLATION property=%s replay=%s\n", p.ID, path)
			for _, m := range m1 {
				fmt.Println("  " + m)
			}
			return 1
		}
		fmt.Println("replay: no violation on this tree")
		return 0
	}
	fmt.Fprintf(os.Stderr, "ENGINE-ERROR: scenario %q not found\n", rf.V.Scenario)
	return 2
}
