package main

import (
	"verif/harness/c04"
	"verif/runner"
)

func main() { runner.Main(c04.Property()) }
