// Package c15: cache reads are atomic snapshots, linearizable with updates.
// Real _cache, one writer moving through distinguishable complete states, N
// readers doing List/Get; every interleaving explored (S1).
package c15

import (
	"context"
	"fmt"
	"strings"

	"github.com/boz/kcache"
	"github.com/boz/kcache/filter"
	metav1 "k8s.io/apimachinery/pkg/apis/meta/v1"

	"verif/explore"
	"verif/harness/hx"
	"verif/runner"
	"verif/vs"
)

type wop struct {
	kind   string // sync | refilter | update
	list   []metav1.Object
	filter filter.Filter
	ev     kcache.Event
}

type read struct {
	reader int
	kind   string // list | geta | getb
	t1, t2 int    // writer ops returned before invoke / started before return
	result string
	kept   []metav1.Object
}

type state struct {
	started, returned int
	reads             []read
}

func objs(os ...metav1.Object) []metav1.Object { return os }

// states[k] is the cache content after k writer operations.
func plan(variant int) ([]wop, []map[string]string) {
	a := func(rv, l string) metav1.Object { return hx.Pod("ns", "a", rv, l) }
	b := func(rv, l string) metav1.Object { return hx.Pod("ns", "b", rv, l) }
	var ops []wop
	switch variant {
	case 0: // relists that change both keys at once
		ops = []wop{
			{kind: "sync", list: objs(a("1", "l=1"), b("1", "l=1"))},
			{kind: "sync", list: objs(a("2", "l=1"), b("2", "l=1"))},
			{kind: "sync", list: objs()},
		}
	case 1: // refilter that flips membership of both keys, then events
		ops = []wop{
			{kind: "sync", list: objs(a("1", "l=1"), b("1", "l=0"))},
			{kind: "refilter", list: objs(a("1", "l=1"), b("1", "l=0")), filter: filter.Labels(map[string]string{"l": "0"})},
			{kind: "update", ev: kcache.NewEvent(kcache.EventTypeUpdate, a("2", "l=0"))},
			{kind: "update", ev: kcache.NewEvent(kcache.EventTypeDelete, b("2", "l=0"))},
		}
	case 3: // a stale relist (older than what an event already installed) must not move the content backwards
		ops = []wop{
			{kind: "sync", list: objs(a("1", "l=1"))},
			{kind: "update", ev: kcache.NewEvent(kcache.EventTypeUpdate, a("2", "l=1"))},
			{kind: "sync", list: objs(a("1", "l=1"))},
			{kind: "update", ev: kcache.NewEvent(kcache.EventTypeUpdate, a("3", "l=1"))},
		}
	case 4: // long lists (300 objects): a relist is applied as a whole, however long it is
		gen := func(rv string) []metav1.Object {
			var l []metav1.Object
			for i := 0; i < 300; i++ {
				l = append(l, hx.Pod("ns", fmt.Sprintf("o%03d", i), rv, "l=1"))
			}
			return l
		}
		ops = []wop{{kind: "sync", list: gen("1")}, {kind: "sync", list: gen("2")}, {kind: "sync", list: gen("3")[:150]}}
	case 5: // the cache's context ends in the middle of a relist (see run): the relist is applied as a whole or the cache stops answering
		c := func(rv, l string) metav1.Object { return hx.Pod("ns", "c", rv, l) }
		ops = []wop{
			{kind: "sync", list: objs(a("1", "l=1"), b("1", "l=1"), c("1", "l=1"))},
			{kind: "sync", list: objs(a("2", "l=1"), b("2", "l=1"))},
			{kind: "sync", list: objs(a("3", "l=1"), b("3", "l=1"), c("3", "l=1"))},
		}
	default: // relist + refilter back-to-back replacing everything
		ops = []wop{
			{kind: "sync", list: objs(a("1", "l=1"))},
			{kind: "refilter", list: objs(a("2", "l=1"), b("2", "l=1")), filter: filter.Labels(map[string]string{"l": "1"})},
			{kind: "sync", list: objs(b("3", "l=1"))},
		}
	}
	return ops, nil
}

type inst struct {
	variant, readers int
	kinds            []string
	st               state
	contents         []string            // rendered List after k ops (reference, computed sequentially by the model below)
	gets             []map[string]string // Get results per key after k ops
	done             int
}

// reference model of the content after each op: a plain map with the rules of C01.
func (in *inst) model(ops []wop) {
	cur := map[string]metav1.Object{}
	var f filter.Filter = filter.Null()
	ver := func(o metav1.Object) int { var v int; fmt.Sscanf(o.GetResourceVersion(), "%d", &v); return v }
	snap := func() {
		var l []metav1.Object
		g := map[string]string{"a": "<nil>", "b": "<nil>"}
		for _, o := range cur {
			l = append(l, o)
			g[o.GetName()] = hx.ObjString(o)
		}
		in.contents = append(in.contents, hx.ListString(l))
		in.gets = append(in.gets, g)
	}
	upsert := func(o metav1.Object) {
		k := hx.Key(o)
		c, ok := cur[k]
		switch {
		case !ok && f.Accept(o):
			cur[k] = o
		case ok && ver(o) > ver(c) && f.Accept(o):
			cur[k] = o
		case ok && ver(o) > ver(c):
			delete(cur, k)
		}
	}
	syncTo := func(list []metav1.Object) {
		seen := map[string]bool{}
		for _, o := range list {
			upsert(o)
			seen[hx.Key(o)] = true
		}
		for k := range cur {
			if !seen[k] {
				delete(cur, k)
			}
		}
	}
	snap()
	for _, op := range ops {
		switch op.kind {
		case "sync":
			syncTo(op.list)
		case "refilter":
			f = op.filter
			for k, o := range cur {
				if !f.Accept(o) {
					delete(cur, k)
				}
			}
			syncTo(op.list)
		case "update":
			o := op.ev.Resource()
			if op.ev.Type() == kcache.EventTypeDelete {
				delete(cur, hx.Key(o))
			} else {
				upsert(o)
			}
		}
		snap()
	}
}

func (in *inst) run() {
	ops, _ := plan(in.variant)
	in.model(ops)
	ctx := context.Background()
	stop := make(chan struct{})
	var f filter.Filter = filter.Null()
	cancelled := false
	isCancelled := func() (b bool) { vs.Atomic("cancel", func() { b = cancelled }); return }
	if in.variant == 5 {
		// the context is cancelled from inside the filter while the second relist is at its first entry
		var cancel context.CancelFunc
		ctx, cancel = context.WithCancel(ctx)
		f = filter.FN(func(o metav1.Object) bool {
			if o.GetName() == "a" && o.GetResourceVersion() == "2" {
				vs.Atomic("cancel", func() { cancelled = true })
				cancel()
			}
			return true
		})
	}
	c := kcache.VNewCache(ctx, hx.Log, stop, f)
	fin := make(chan bool)
	go func() { // writer
		for i, op := range ops {
			if i == 0 {
				vs.Atomic("hist", func() { in.st.started++ })
			}
			last := i == len(ops)-1
			var err error
			switch op.kind {
			case "sync":
				_, err = c.Sync(op.list)
			case "refilter":
				_, err = c.Refilter(op.list, op.filter)
			case "update":
				_, err = c.Update(op.ev)
			}
			if err != nil && isCancelled() {
				break // the cache went down with its context: the operation may or may not have been applied
			}
			if err != nil {
				vs.Fail("writer op %s failed: %v", op.kind, err)
			}
			// op i returned and op i+1 starts: one visible instant (nothing happens in between)
			vs.Atomic("hist", func() {
				in.st.returned++
				if !last {
					in.st.started++
				}
			})
		}
		fin <- true
	}()
	for r := 0; r < in.readers; r++ {
		r := r
		go func() {
			kinds := in.kinds
			var prev []metav1.Object
			t1 := 0
			vs.Atomic("hist", func() { t1 = in.st.returned })
			for i, kind := range kinds {
				rd := read{reader: r, kind: kind, t1: t1}
				switch kind {
				case "list":
					l, err := c.List()
					if err != nil && isCancelled() {
						fin <- true
						return
					}
					if err != nil {
						vs.Fail("List: %v", err)
					}
					rd.result = hx.ListString(l)
					rd.kept = l
					// the slice belongs to the caller: after some arbitrary delay scribble on the previous one
					if prev != nil {
						vs.Step(1)
						for i := range prev {
							prev[i] = nil
						}
					}
					prev = l
				case "geta":
					o, err := c.Get("ns", "a")
					if err != nil {
						vs.Fail("Get: %v", err)
					}
					rd.result = hx.ObjString(o)
				case "getb":
					o, err := c.Get("ns", "b")
					if err != nil {
						vs.Fail("Get: %v", err)
					}
					rd.result = hx.ObjString(o)
				}
				_ = i
				// return of this read and invocation of the next one: one visible instant
				vs.Atomic("hist", func() { rd.t2 = in.st.started; t1 = in.st.returned; in.st.reads = append(in.st.reads, rd) })
			}
			fin <- true
		}()
	}
	for i := 0; i < in.readers+1; i++ {
		<-fin
		in.done++
	}
	close(stop)
	<-c.Done()
}

func (in *inst) check(r *vs.Result) []string {
	var msgs []string
	if in.done != in.readers+1 {
		msgs = append(msgs, fmt.Sprintf("hang: only %d of %d drivers finished; blocked: %v", in.done, in.readers+1, r.Blocked))
		return msgs
	}
	if len(r.Blocked) > 0 {
		msgs = append(msgs, fmt.Sprintf("goroutines left after shutdown: %v", r.Blocked))
	}
	last := map[int]int{}
	lastList := map[int]int{}
	for i, rd := range in.st.reads {
		if rd.kind == "list" {
			lastList[rd.reader] = i
		}
	}
	for i, rd := range in.st.reads {
		// ownership: a slice the caller did not touch must still hold what List returned
		if rd.kind == "list" && lastList[rd.reader] == i {
			if now := hx.ListString(rd.kept); now != rd.result {
				msgs = append(msgs, fmt.Sprintf("slice returned by List() to reader %d changed under the caller: was %s, now %s", rd.reader, rd.result, now))
			}
		}
	}
	for _, rd := range in.st.reads {
		// feasible state indices: lo..hi
		lo, hi := rd.t1, rd.t2
		if l := last[rd.reader]; l > lo {
			lo = l // never backwards for one caller
		}
		match := -1
		for j := lo; j <= hi && j < len(in.contents); j++ {
			var want string
			switch rd.kind {
			case "list":
				want = in.contents[j]
			case "geta":
				want = in.gets[j]["a"]
			case "getb":
				want = in.gets[j]["b"]
			}
			if want == rd.result {
				match = j
				break
			}
		}
		if match < 0 {
			msgs = append(msgs, fmt.Sprintf("reader %d %s returned %s: not the content at any instant between call and return (states %d..%d of %v), or goes backwards", rd.reader, rd.kind, rd.result, lo, hi, in.contents))
			continue
		}
		last[rd.reader] = match
	}
	return msgs
}

func (in *inst) outcome() string {
	var b strings.Builder
	for _, rd := range in.st.reads {
		fmt.Fprintf(&b, "%d:%s=%s;", rd.reader, rd.kind, rd.result)
	}
	return b.String()
}

func scenario(variant, readers int, kinds string, mode string, bound int) runner.Sc {
	return runner.Sc{
		Scenario: explore.Scenario{
			Name:  fmt.Sprintf("c15/v%d/r%d/%s/%s%d", variant, readers, kinds, mode, bound),
			Mode:  mode,
			Bound: bound,
			New: func() explore.Instance {
				in := &inst{variant: variant, readers: readers, kinds: strings.Split(kinds, ",")}
				return explore.Instance{Run: in.run, Check: in.check, Outcome: in.outcome}
			},
		},
		Split: true,
	}
}

// ---- refilter of a filtered subscription, seen by concurrent readers of its cache -------------------------------

// finst: a ready SubscribeWithFilter node over a parent holding a{l=1}, b{l=0}; one goroutine calls Refilter(l=0)
// then Refilter(Null) (the call is asynchronous: it returns before the filter is applied); with del, another one
// deletes a from the parent meanwhile; readers List the subscription's cache.  Every read must be a complete view
// view(filter i, parent j) - filters l=1 -> l=0 -> Null, parent {a,b} -> {b} - not later than the calls started, and
// never backwards in either coordinate per reader ("never a half-applied refilter"); the read at final quiescence is
// view(Null, final parent).
type finst struct {
	readers, nreads int
	del             bool
	started         int // Refilter calls started
	delStarted      int // parent deletes started
	reads           []read
	views           [3][2]string
	final           string
	done            int
	drivers         int
}

func (in *finst) run() {
	a := hx.Pod("ns", "a", "1", "l=1")
	b := hx.Pod("ns", "b", "1", "l=0")
	for fi, f := range []int{2, 3, 0} {
		for pj, content := range [][]metav1.Object{objs(a, b), objs(b)} {
			var v []metav1.Object
			for _, o := range content {
				if hx.RefAccept(f, o) {
					v = append(v, o)
				}
			}
			in.views[fi][pj] = hx.ListString(v)
		}
	}
	root := hx.NewRoot(filter.Null())
	root.Init(objs(a, b))
	fs, err := root.Pub.SubscribeWithFilter(hx.MkFilter(2))
	if err != nil {
		vs.Fail("subscribe: %v", err)
		return
	}
	<-fs.Ready()
	go func() {
		for range fs.Events() {
		}
	}()
	fin := make(chan bool)
	in.drivers = 1
	go func() {
		for _, f := range []int{3, 0} {
			vs.Atomic("hist", func() { in.started++ })
			if err := fs.Refilter(hx.MkFilter(f)); err != nil {
				vs.Fail("Refilter: %v", err)
			}
		}
		fin <- true
	}()
	if in.del {
		in.drivers++
		go func() {
			vs.Atomic("hist", func() { in.delStarted++ })
			root.Publish(kcache.NewEvent(kcache.EventTypeDelete, hx.Pod("ns", "a", "2", "l=1")))
			fin <- true
		}()
	}
	for r := 0; r < in.readers; r++ {
		r := r
		go func() {
			for i := 0; i < in.nreads; i++ {
				l, err := fs.Cache().List()
				if err != nil {
					vs.Fail("List: %v", err)
				}
				vs.Atomic("hist", func() {
					in.reads = append(in.reads, read{reader: r, kind: "list", t1: in.delStarted, t2: in.started, result: hx.ListString(l)})
				})
			}
			fin <- true
		}()
	}
	for i := 0; i < in.readers+in.drivers; i++ {
		<-fin
		in.done++
	}
	vs.SleepIdle(1)
	if l, err := fs.Cache().List(); err == nil {
		in.final = hx.ListString(l)
	}
	root.Stop()
}

func (in *finst) check(r *vs.Result) []string {
	var msgs []string
	if in.done != in.readers+in.drivers {
		return []string{fmt.Sprintf("hang: only %d of %d drivers finished; blocked: %v", in.done, in.readers+in.drivers, r.Blocked)}
	}
	type st struct{ f, p int }
	last := map[int][]st{}
	for _, rd := range in.reads {
		prev := last[rd.reader]
		if prev == nil {
			prev = []st{{0, 0}}
		}
		var next []st
		for f := 0; f <= rd.t2 && f < 3; f++ {
			for p := 0; p <= rd.t1 && p < 2; p++ {
				if in.views[f][p] != rd.result {
					continue
				}
				for _, q := range prev {
					if f >= q.f && p >= q.p {
						next = append(next, st{f, p})
						break
					}
				}
			}
		}
		if len(next) == 0 {
			msgs = append(msgs, fmt.Sprintf("half-applied refilter visible | reader %d of a filtered subscription's cache got %s: not a complete view (filters l=1,l=0,Null x parent with/without a: %v) reachable with %d Refilter calls and %d parent deletes started and not behind its previous read %v", rd.reader, rd.result, in.views, rd.t2, rd.t1, prev))
			continue
		}
		last[rd.reader] = next
	}
	want := in.views[2][0]
	if in.del {
		want = in.views[2][1]
	}
	if in.final != want {
		msgs = append(msgs, fmt.Sprintf("refilter mixes an old snapshot with newer events | at quiescence the filtered subscription's cache holds %s, the last filter (Null) over the final parent content gives %s", in.final, want))
	}
	return msgs
}

func (in *finst) outcome() string {
	var b strings.Builder
	for _, rd := range in.reads {
		fmt.Fprintf(&b, "%d=%s;", rd.reader, rd.result)
	}
	return b.String() + in.final
}

// early-reader scenario: a reader takes Cache() of a filtered subscription before its parent is ready and before a
// Refilter; the handle it holds must be THE cache of that subscription for good (typed wrappers, clones and joins
// take it once at construction).
type einst struct {
	early, late, want string
	ready, finished   bool
}

func (in *einst) run() {
	a := hx.Pod("ns", "a", "1", "l=1")
	b := hx.Pod("ns", "b", "1", "l=0")
	in.want = hx.ListString(objs(b))
	root := hx.NewRoot(filter.Null())
	fs, err := root.Pub.SubscribeWithFilter(hx.MkFilter(2))
	if err != nil {
		vs.Fail("subscribe: %v", err)
		return
	}
	c0 := fs.Cache()
	go func() {
		for range fs.Events() {
		}
	}()
	fin := make(chan bool, 2)
	go func() { fs.Refilter(hx.MkFilter(3)); fin <- true }()
	go func() { root.Init(objs(a, b)); fin <- true }()
	<-fin
	<-fin
	<-fs.Ready()
	in.ready = true
	vs.SleepIdle(1)
	if l, err := c0.List(); err == nil {
		in.early = hx.ListString(l)
	} else {
		in.early = "error:" + err.Error()
	}
	if l, err := fs.Cache().List(); err == nil {
		in.late = hx.ListString(l)
	}
	in.finished = true
	root.Stop()
}

func (in *einst) check(r *vs.Result) []string {
	if !in.finished {
		return []string{fmt.Sprintf("hang: early-reader scenario did not finish (ready=%v)", in.ready)}
	}
	var msgs []string
	if in.early != in.want || in.late != in.want {
		msgs = append(msgs, fmt.Sprintf("cache handle taken before readiness serves another cache | a reader that took Cache() before the parent was ready and before Refilter(l=0) lists %s, a fresh Cache() lists %s, the filtered content is %s", in.early, in.late, in.want))
	}
	return msgs
}

func escenario(mode string, bound int) runner.Sc {
	return runner.Sc{
		Scenario: explore.Scenario{
			Name: fmt.Sprintf("c15/fsub-early-cache-handle/%s%d", mode, bound), Mode: mode, Bound: bound,
			Cfg: vs.Config{Timers: vs.TimersIdle, MaxSteps: 200000},
			New: func() explore.Instance {
				in := &einst{}
				return explore.Instance{Run: in.run, Check: in.check, Outcome: func() string { return in.early + "|" + in.late }}
			},
		},
		Split: true,
	}
}

func fscenario(readers, nreads int, mode string, bound int) runner.Sc {
	return fscenarioDel(false, readers, nreads, mode, bound)
}

func fscenarioDel(del bool, readers, nreads int, mode string, bound int) runner.Sc {
	return runner.Sc{
		Scenario: explore.Scenario{
			Name: fmt.Sprintf("c15/fsub-refilter%s/r%d/reads%d/%s%d", map[bool]string{true: "+parent-delete"}[del], readers, nreads, mode, bound), Mode: mode, Bound: bound,
			Cfg: vs.Config{Timers: vs.TimersIdle, MaxSteps: 200000},
			New: func() explore.Instance {
				in := &finst{readers: readers, nreads: nreads, del: del}
				return explore.Instance{Run: in.run, Check: in.check, Outcome: in.outcome}
			},
		},
		Split: true,
	}
}

func Property() runner.Property {
	return runner.Property{
		ID:    "C15",
		Level: "model_checking",
		Rule:  "every interleaving (S1: DFS with happens-before state caching) of 1 writer moving a real _cache through distinguishable complete states via sync/refilter/update and N readers doing List,Get(a),Get(b),List; each read must equal the reference content at some instant between its call and return and never go backwards per reader; plus a ready filtered subscription refiltered twice (disjoint, then accept-all) under concurrent readers of its cache: every read is one of the complete views",
		Assumptions: []string{
			"scheduling points at channel operations suffice (no shared memory besides channels; checked by the completeness scan and the auxiliary -race pass)",
			"data-race clause of C15 is outside a cooperative scheduler's reach (auxiliary free-running -race pass only)",
		},
		Scenarios: func(tier string) []runner.Sc {
			var out []runner.Sc
			for v := 0; v < 4; v++ {
				out = append(out, scenario(v, 1, "list,geta,getb,list", "S1", 0))
				out = append(out, scenario(v, 2, "list", "S1", 0))
				out = append(out, scenario(v, 2, "list,geta,getb,list", "S2", 2))
			}
			out = append(out, fscenario(1, 2, "S2", 3), fscenario(2, 2, "S2", 3), fscenarioDel(true, 1, 2, "S2", 3))
			out = append(out, scenario(4, 1, "list,list", "S2", 3), scenario(4, 2, "list", "S2", 2))
			out = append(out, escenario("S2", 3))
			out = append(out, scenario(5, 1, "list,list,list", "S2", 3), scenario(5, 2, "list,list", "S2", 2))
			if tier == "thorough" {
				out = append(out, fscenario(1, 2, "S1", 0), fscenario(2, 2, "S2", 4), fscenario(3, 2, "S2", 3), fscenarioDel(true, 2, 2, "S2", 4))
				for v := 0; v < 3; v++ {
					s := scenario(v, 2, "list,list", "S1", 0)
					s.TableBits = 26
					out = append(out, s)
					out = append(out, scenario(v, 2, "list,geta,getb,list", "S2", 4))
					out = append(out, scenario(v, 3, "list,geta,getb,list", "S2", 3))
				}
			}
			return out
		},
	}
}
