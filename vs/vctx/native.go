//go:build vsnative

package vctx

import (
	"context"
	"time"
)

type Context = context.Context
type CancelFunc = context.CancelFunc

var Canceled = context.Canceled
var DeadlineExceeded = context.DeadlineExceeded

func Background() Context { return context.Background() }
func TODO() Context       { return context.TODO() }
func WithValue(parent Context, key, val interface{}) Context {
	return context.WithValue(parent, key, val)
}
func WithCancel(parent Context) (Context, CancelFunc) { return context.WithCancel(parent) }
func WithTimeout(parent Context, d time.Duration) (Context, CancelFunc) {
	return context.WithTimeout(parent, d)
}
func WithDeadline(parent Context, t time.Time) (Context, CancelFunc) {
	return context.WithDeadline(parent, t)
}
