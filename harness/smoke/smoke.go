package smoke

import (
	"context"

	"github.com/boz/kcache"
	"github.com/boz/kcache/filter"
	metav1 "k8s.io/apimachinery/pkg/apis/meta/v1"

	"verif/harness/hx"
	"verif/vs"
)

func Scenario() {
	ctx, cancel := context.WithCancel(context.Background())
	stop := make(chan struct{})
	c := kcache.VNewCache(ctx, hx.Log, stop, filter.Null())
	evs, err := c.Sync([]metav1.Object{hx.Pod("ns", "a", "1", "l=1")})
	vs.Logf("sync -> %s %v", hx.EventsString(evs), err)
	l, _ := c.List()
	if hx.ListString(l) != "[ns/a@1{l=1}]" {
		vs.Fail("list = %s", hx.ListString(l))
	}
	done := make(chan bool)
	go func() {
		l, _ := c.List()
		vs.Logf("%s", hx.ListString(l))
		done <- true
	}()
	<-done
	cancel()
	<-c.Done()
}
