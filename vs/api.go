//go:build !vsnative

package vs

import (
	"fmt"
	"reflect"
	"runtime"
	"sort"
	"unsafe"
)

func chanPtr[C any](ch C) unsafe.Pointer {
	return *(*unsafe.Pointer)(unsafe.Pointer(&ch))
}

// Make registers a freshly made channel with the scheduler (identity function).
func Make[T any](ch chan T) chan T {
	if s := current; s != nil && !s.aborting {
		s.register(chanPtr(ch), cap(ch), "")
	}
	return ch
}

// MakeCap is Make with an explicit model capacity (used for EventBufsiz).
func MakeCap[T any](ch chan T, capacity int) chan T {
	if s := current; s != nil && !s.aborting {
		if s.cfg.Bufsiz > 0 {
			capacity = s.cfg.Bufsiz // the scenario's model of EventBufsiz
		}
		s.register(chanPtr(ch), capacity, ".buf")
	}
	return ch
}

// Rx / Tx carry the element type so that results come back typed.
type Rx[T any] struct{ c *Chan }
type Tx[T any] struct{ c *Chan }

func R[T any](ch <-chan T) Rx[T] {
	s := current
	if s == nil || s.aborting {
		return Rx[T]{}
	}
	return Rx[T]{s.chanFor(chanPtr(ch), cap(ch))}
}

func S[T any](ch chan<- T) Tx[T] {
	s := current
	if s == nil || s.aborting {
		return Tx[T]{}
	}
	return Tx[T]{s.chanFor(chanPtr(ch), cap(ch))}
}

func (r Rx[T]) Case() Case           { return Case{dir: dirRecv, ch: r.c} }
func (t Tx[T]) Case(v T) Case        { return Case{dir: dirSend, ch: t.c, val: v} }
func (r Rx[T]) Val(x Sel) T          { v, _ := x.val.(T); return v }
func (r Rx[T]) Val2(x Sel) (T, bool) { v, _ := x.val.(T); return v, x.ok }

// Sel is the outcome of a select.
type Sel struct {
	Index int
	val   interface{}
	ok    bool
}

func Select(hasDefault bool, cases ...Case) Sel {
	s := current
	if s == nil || s.aborting {
		return Sel{Index: -2}
	}
	o := &op{kind: opSelect, cases: cases, hasDefault: hasDefault}
	s.do(o)
	return Sel{Index: o.idx, val: o.val, ok: o.ok}
}

func Recv[T any](ch <-chan T) T {
	r := R(ch)
	x := Select(false, r.Case())
	return r.Val(x)
}

func Recv2[T any](ch <-chan T) (T, bool) {
	r := R(ch)
	x := Select(false, r.Case())
	return r.Val2(x)
}

func (t Tx[T]) Send(v T) {
	Select(false, t.Case(v))
}

func Send[T any](ch chan<- T, v T) { S(ch).Send(v) }

func Close[T any](ch chan<- T) {
	s := current
	if s == nil || s.aborting {
		return
	}
	o := &op{kind: opClose, ch: s.chanFor(chanPtr(ch), cap(ch))}
	s.do(o)
}

// CloseRW closes a bidirectional channel (type inference helper).
func CloseRW[T any](ch chan T) { Close[T](ch) }

// Go starts a controlled goroutine.
func Go(name string, fn func()) {
	s := current
	if s == nil {
		EngineError("vs.Go outside Execute")
	}
	if s.aborting {
		return
	}
	s.spawn(s.cur, name, fn)
}

// GoRole starts a goroutine whose descendants are attributed to role.
func GoRole(role, name string, fn func()) {
	s := current
	if s == nil {
		EngineError("vs.GoRole outside Execute")
	}
	if s.aborting {
		return
	}
	g := s.spawn(s.cur, name, fn)
	g.role = role
}

// SetRole attributes the running goroutine (and goroutines it spawns from now on) to role.
func SetRole(role string) string {
	s := current
	if s == nil || s.cur == nil {
		return ""
	}
	old := s.cur.role
	s.cur.role = role
	return old
}

// Choose is an explicit choice point of the environment: returns 0..n-1.
// Alternative 0 is the default environment answer.
func Choose(n int) int {
	s := current
	if s == nil || s.aborting {
		return 0
	}
	if n <= 1 {
		return 0
	}
	o := &op{kind: opChoose, n: n}
	s.do(o)
	return o.idx
}

// Step is a visible no-op scheduling point.
func Step(tag uint64) {
	s := current
	if s == nil || s.aborting {
		return
	}
	o := &op{kind: opLocal, tag: tag}
	s.do(o)
}

// Obj is a piece of state shared between goroutines; it may only be touched
// inside Atomic.
type Obj struct {
	hid H
	h   H
}

// Atomic runs fn as one visible, mutually dependent operation on key.
func Atomic(key interface{}, fn func()) {
	s := current
	if s == nil || s.aborting {
		fn()
		return
	}
	ob := s.objs[key]
	if ob == nil {
		ob = s.newObj(key)
	}
	o := &op{kind: opLocal, tag: 0x7005}
	s.do(o)
	g := s.cur
	s.bump(g, ob.hid.A, ob.h.A, ob.h.B)
	ob.h = MixH(ob.h, g.chain)
	fn()
}

// Len is len(ch) of a modelled channel: a visible, always enabled step whose
// observation (channel identity and its send / receive counts) is folded into
// the reader's chain.  Cap is the modelled capacity (immutable: no step).
func Len[C any](ch C) int {
	s := current
	if s == nil || s.aborting {
		return reflect.ValueOf(ch).Len()
	}
	c := s.chanFor(chanPtr(ch), reflect.ValueOf(ch).Cap())
	if c == nil {
		return 0
	}
	if c.reply {
		s.replyBreach(c, "has its length observed")
	}
	o := &op{kind: opLocal, tag: 0x7006}
	s.do(o)
	s.bump(s.cur, c.hid.A, c.hid.B, c.sendSeq, c.recvSeq)
	return len(c.buf)
}

func Cap[C any](ch C) int {
	s := current
	if s == nil || s.aborting {
		return reflect.ValueOf(ch).Cap()
	}
	c := s.chanFor(chanPtr(ch), reflect.ValueOf(ch).Cap())
	if c == nil {
		return 0
	}
	if c.reply {
		s.replyBreach(c, "has its capacity observed")
	}
	return c.cap
}

// newObj names a shared object independently of heap addresses: strings by
// content, everything else by (creating or first touching goroutine, index).
func (s *Sched) newObj(key interface{}) *Obj {
	var hid H
	if str, ok := key.(string); ok {
		hid = HashString(str)
	} else if g := s.cur; g != nil {
		hid = Mix(g.chain, 0x79, uint64(g.nmake))
		g.nmake++
	} else {
		EngineError("shared object touched outside a controlled goroutine")
	}
	ob := &Obj{hid: hid}
	s.objs[key] = ob
	return ob
}

// RegisterObj names a shared object at creation time (by its creator).
func RegisterObj(key interface{}) {
	s := current
	if s == nil || s.aborting || s.cur == nil {
		return
	}
	if s.objs[key] == nil {
		s.newObj(key)
	}
}

// Fail records a harness-detected violation in the current execution.
func Fail(format string, args ...interface{}) {
	s := current
	if s == nil {
		return
	}
	s.res.Failures = append(s.res.Failures, fmt.Sprintf(format, args...))
}

// Logf appends to the running goroutine's private observation log.
func Logf(format string, args ...interface{}) {
	s := current
	if s == nil || s.cur == nil || s.aborting {
		return
	}
	s.cur.Log = append(s.cur.Log, fmt.Sprintf(format, args...))
}

// New registers a pointer under a schedule independent name (identity function).
func New[T any](p *T) *T {
	s := current
	if s == nil || s.aborting || s.cur == nil {
		return p
	}
	g := s.cur
	s.ptrs[unsafe.Pointer(p)] = fmt.Sprintf("p%s#%06d", g.path, g.nmake)
	g.nmake++
	return p
}

func (s *Sched) keyName(v reflect.Value) string {
	switch v.Kind() {
	case reflect.Interface:
		if v.IsNil() {
			return "nil"
		}
		return s.keyName(v.Elem())
	case reflect.Ptr, reflect.UnsafePointer:
		if n, ok := s.ptrs[unsafe.Pointer(v.Pointer())]; ok {
			return n
		}
		if v.IsNil() {
			return "nil"
		}
		return "?" + fmt.Sprintf("%v", v.Elem().Interface())
	case reflect.Chan:
		if c, ok := s.chans[unsafe.Pointer(v.Pointer())]; ok {
			return c.name
		}
		return "chan?"
	default:
		return fmt.Sprintf("%v", v.Interface())
	}
}

// MapKeys returns the keys of m in canonical (schedule independent) order.
func MapKeys[K comparable, V any](m map[K]V) []K {
	keys := make([]K, 0, len(m))
	for k := range m {
		keys = append(keys, k)
	}
	if len(keys) < 2 {
		return keys
	}
	s := current
	names := make(map[K]string, len(keys))
	for _, k := range keys {
		if s != nil {
			names[k] = s.keyName(reflect.ValueOf(&k).Elem())
		} else {
			names[k] = fmt.Sprintf("%v", k)
		}
	}
	sort.Slice(keys, func(i, j int) bool { return names[keys[i]] < names[keys[j]] })
	if s != nil && !s.aborting && mapOrderChoice {
		// rotation chosen by the explorer: default = canonical order
		if r := Choose(len(keys)); r > 0 {
			keys = append(keys[r:], keys[:r]...)
		}
	}
	return keys
}

var mapOrderChoice = false

// SetMapOrderChoice makes every map iteration an explorer choice of rotation.
func SetMapOrderChoice(on bool) { mapOrderChoice = on }

// Controlled reports whether the controlled scheduler is compiled in.
const Controlled = true

// Unreachable is the value panicked with by the generated default clause of a
// select without default: only reachable while an execution is being unwound.
func Unreachable() interface{} {
	s := current
	if s != nil && s.aborting {
		runtime.Goexit()
	}
	EngineError("select returned no case")
	return nil
}
