// chanxform rewrites every concurrency primitive of the loaded packages into
// calls of the verif/vs shim (see DESIGN.md 2.1) and writes the result next to
// an overlay.json for `go build -overlay`.
//
// usage: chanxform -dir /repo -out $SCRATCH/src -overlay $SCRATCH/overlay.json \
//
//	[-bufconst EventBufsiz=3] [-module-copy dir] pkgpattern...
package main

import (
	"bytes"
	"encoding/json"
	"flag"
	"fmt"
	"go/ast"
	"go/format"
	"go/token"
	"go/types"
	"os"
	"path/filepath"
	"sort"
	"strconv"
	"strings"

	"golang.org/x/tools/go/ast/astutil"
	"golang.org/x/tools/go/packages"
)

var (
	flagDir      = flag.String("dir", ".", "directory to load packages from")
	flagOut      = flag.String("out", "", "output directory for transformed files")
	flagOverlay  = flag.String("overlay", "", "overlay json to write (merged with existing file if present)")
	flagBufconst = flag.String("bufconst", "", "NAME=N: channel capacities given by constant NAME are modelled as N")
	flagCopyTo   = flag.String("copy-module", "", "instead of an overlay, write a full copy of the (single) package directory here")
	flagTags     = flag.String("tags", "verif", "build tags used for loading")
	flagAllow    = flag.String("allow", "", "comma separated import paths exempt from the completeness scan")
	flagExtra    = flag.String("add", "", "comma separated src=dst pairs: extra files added to the overlay (dst is the virtual path)")
	flagQuiet    = flag.Bool("q", false, "quiet")
	flagGoPrefix = flag.String("goprefix", "", "prefix of the names given to goroutines started by the transformed code")
	flagSrcAdd   = flag.String("srcadd", "", "comma separated virtual=real pairs: source files added to the loaded packages (and to the overlay)")
)

const vsPath = "verif/vs"
const vsName = "_vs"

var importSwap = map[string][2]string{
	"time":      {"time", "verif/vs/vtime"},
	"context":   {"context", "verif/vs/vctx"},
	"math/rand": {"rand", "verif/vs/vrand"},
}

var forbidden = map[string]bool{
	"sync": true, "sync/atomic": true, "os/signal": true, "runtime": true,
}

type stats struct {
	Files, Changed                                                int
	Send, Recv, Select, Go, Close, RangeChan, RangeMap, Make, New int
}

var st stats

func fatal(format string, args ...interface{}) {
	fmt.Fprintf(os.Stderr, "chanxform: ENGINE-ERROR: "+format+"\n", args...)
	os.Exit(2)
}

func main() {
	flag.Parse()
	if *flagOut == "" && *flagCopyTo == "" {
		fatal("need -out or -copy-module")
	}
	bufName, bufVal := "", 0
	if *flagBufconst != "" {
		parts := strings.SplitN(*flagBufconst, "=", 2)
		if len(parts) != 2 {
			fatal("bad -bufconst")
		}
		bufName = parts[0]
		v, err := strconv.Atoi(parts[1])
		if err != nil {
			fatal("bad -bufconst value")
		}
		bufVal = v
	}
	allow := map[string]bool{}
	for _, a := range strings.Split(*flagAllow, ",") {
		if a != "" {
			allow[a] = true
		}
	}

	cfg := &packages.Config{
		Mode: packages.NeedName | packages.NeedFiles | packages.NeedCompiledGoFiles | packages.NeedSyntax |
			packages.NeedTypes | packages.NeedTypesInfo | packages.NeedImports | packages.NeedTypesSizes,
		Dir:        *flagDir,
		Env:        append(os.Environ(), "GOFLAGS=-mod=mod", "GOPROXY=off", "GOSUMDB=off", "GOTOOLCHAIN=local"),
		BuildFlags: []string{"-tags", *flagTags},
	}
	srcAdd := map[string]string{}
	if *flagSrcAdd != "" {
		cfg.Overlay = map[string][]byte{}
		for _, pair := range strings.Split(*flagSrcAdd, ",") {
			kv := strings.SplitN(pair, "=", 2)
			if len(kv) != 2 {
				fatal("bad -srcadd")
			}
			b, err := os.ReadFile(kv[1])
			if err != nil {
				fatal("srcadd: %v", err)
			}
			cfg.Overlay[kv[0]] = b
			srcAdd[kv[0]] = kv[1]
		}
	}
	pkgs, err := packages.Load(cfg, flag.Args()...)
	if err != nil {
		fatal("load: %v", err)
	}
	bad := false
	for _, p := range pkgs {
		for _, e := range p.Errors {
			fmt.Fprintf(os.Stderr, "chanxform: %s: %v\n", p.PkgPath, e)
			bad = true
		}
	}
	if bad {
		fatal("packages do not type-check")
	}

	overlay := map[string]string{}
	if *flagOverlay != "" {
		if b, err := os.ReadFile(*flagOverlay); err == nil {
			var o struct{ Replace map[string]string }
			if json.Unmarshal(b, &o) == nil && o.Replace != nil {
				overlay = o.Replace
			}
		}
	}

	for _, p := range pkgs {
		for i, f := range p.Syntax {
			fname := p.CompiledGoFiles[i]
			if strings.HasSuffix(fname, "_test.go") {
				continue
			}
			x := &xf{pkg: p, file: f, fset: p.Fset, info: p.TypesInfo, bufName: bufName, bufVal: bufVal, allow: allow, fname: fname}
			changed := x.run()
			st.Files++
			var outPath string
			if *flagCopyTo != "" {
				outPath = filepath.Join(*flagCopyTo, filepath.Base(fname))
			} else {
				if !changed {
					if real, ok := srcAdd[fname]; ok {
						overlay[fname] = real
					}
					continue
				}
				rel := strings.TrimPrefix(fname, "/")
				outPath = filepath.Join(*flagOut, rel)
			}
			st.Changed++
			var buf bytes.Buffer
			for _, l := range x.header {
				buf.WriteString(l + "\n")
			}
			if len(x.header) > 0 {
				buf.WriteString("\n")
			}
			fmt.Fprintf(&buf, "// Code generated by chanxform from %s; DO NOT EDIT.\n\n", fname)
			f.Comments = nil
			f.Doc = nil
			if err := format.Node(&buf, token.NewFileSet(), f); err != nil {
				fatal("print %s: %v", fname, err)
			}
			os.MkdirAll(filepath.Dir(outPath), 0o755)
			if err := os.WriteFile(outPath, buf.Bytes(), 0o644); err != nil {
				fatal("write: %v", err)
			}
			if *flagCopyTo == "" {
				overlay[fname] = outPath
			}
		}
	}
	if *flagExtra != "" {
		for _, pair := range strings.Split(*flagExtra, ",") {
			kv := strings.SplitN(pair, "=", 2)
			if len(kv) == 2 {
				overlay[kv[1]] = kv[0]
			}
		}
	}
	if *flagOverlay != "" {
		b, _ := json.MarshalIndent(map[string]interface{}{"Replace": overlay}, "", " ")
		if err := os.WriteFile(*flagOverlay, b, 0o644); err != nil {
			fatal("write overlay: %v", err)
		}
	}
	if !*flagQuiet {
		b, _ := json.Marshal(st)
		fmt.Printf("chanxform: %s\n", b)
	}
}

type xf struct {
	pkg     *packages.Package
	file    *ast.File
	fset    *token.FileSet
	info    *types.Info
	fname   string
	bufName string
	bufVal  int
	allow   map[string]bool
	header  []string

	skip      map[ast.Node]bool // recv/send nodes owned by an enclosing construct
	recv2     map[ast.Node]bool
	rangeKind map[*ast.RangeStmt]int // 1 chan, 2 map
	wrapped   map[*ast.BlockStmt]int // generated wrapper blocks: index of the inner statement that takes a label
	usesVS    bool
	changed   bool
	tmp       int
}

func (x *xf) pos(n ast.Node) string { return x.fset.Position(n.Pos()).String() }

func (x *xf) fresh(prefix string) *ast.Ident {
	x.tmp++
	return ast.NewIdent(fmt.Sprintf("_v%s%d", prefix, x.tmp))
}

func (x *xf) vs(name string) ast.Expr {
	x.usesVS = true
	x.changed = true
	return &ast.SelectorExpr{X: ast.NewIdent(vsName), Sel: ast.NewIdent(name)}
}

func call(fun ast.Expr, args ...ast.Expr) *ast.CallExpr {
	return &ast.CallExpr{Fun: fun, Args: args}
}

func method(recv ast.Expr, name string, args ...ast.Expr) *ast.CallExpr {
	return call(&ast.SelectorExpr{X: recv, Sel: ast.NewIdent(name)}, args...)
}

func define(lhs ast.Expr, rhs ast.Expr) ast.Stmt {
	return &ast.AssignStmt{Lhs: []ast.Expr{lhs}, Tok: token.DEFINE, Rhs: []ast.Expr{rhs}}
}

func unparen(e ast.Expr) ast.Expr {
	for {
		p, ok := e.(*ast.ParenExpr)
		if !ok {
			return e
		}
		e = p.X
	}
}

func isRecv(e ast.Expr) (*ast.UnaryExpr, bool) {
	u, ok := unparen(e).(*ast.UnaryExpr)
	if ok && u.Op == token.ARROW {
		return u, true
	}
	return nil, false
}

func (x *xf) isBuiltin(id *ast.Ident, name string) bool {
	if id.Name != name {
		return false
	}
	obj := x.info.Uses[id]
	_, ok := obj.(*types.Builtin)
	return ok
}

func (x *xf) run() bool {
	x.skip = map[ast.Node]bool{}
	x.recv2 = map[ast.Node]bool{}
	x.rangeKind = map[*ast.RangeStmt]int{}
	x.wrapped = map[*ast.BlockStmt]int{}

	// keep build constraints
	for _, cg := range x.file.Comments {
		if cg.Pos() > x.file.Package {
			break
		}
		for _, c := range cg.List {
			if strings.HasPrefix(c.Text, "//go:build") || strings.HasPrefix(c.Text, "// +build") {
				x.header = append(x.header, c.Text)
			}
		}
	}

	// imports
	for _, imp := range x.file.Imports {
		path, _ := strconv.Unquote(imp.Path.Value)
		if forbidden[path] && !x.allow[path] && !x.allow[x.pkg.PkgPath] {
			fatal("%s imports %q: the scheduler cannot model it (assumption 'channels only' broken)", x.fname, path)
		}
		if sw, ok := importSwap[path]; ok {
			if imp.Name == nil {
				imp.Name = ast.NewIdent(sw[0])
			}
			imp.Path.Value = strconv.Quote(sw[1])
			x.changed = true
		}
	}

	// drop every comment attached to a node (positions are meaningless after rewriting)
	ast.Inspect(x.file, func(n ast.Node) bool {
		switch v := n.(type) {
		case *ast.Field:
			v.Doc, v.Comment = nil, nil
		case *ast.GenDecl:
			v.Doc = nil
		case *ast.FuncDecl:
			v.Doc = nil
		case *ast.ValueSpec:
			v.Doc, v.Comment = nil, nil
		case *ast.TypeSpec:
			v.Doc, v.Comment = nil, nil
		case *ast.ImportSpec:
			v.Doc, v.Comment = nil, nil
		}
		return true
	})

	astutil.Apply(x.file, x.pre, x.post)

	if x.usesVS {
		astutil.AddNamedImport(x.fset, x.file, vsName, vsPath)
	}
	return x.changed
}

func (x *xf) pre(c *astutil.Cursor) bool {
	switch n := c.Node().(type) {
	case *ast.AssignStmt:
		if len(n.Lhs) == 2 && len(n.Rhs) == 1 {
			if u, ok := isRecv(n.Rhs[0]); ok {
				x.recv2[u] = true
			}
		}
	case *ast.ValueSpec:
		if len(n.Names) == 2 && len(n.Values) == 1 {
			if u, ok := isRecv(n.Values[0]); ok {
				x.recv2[u] = true
			}
		}
	case *ast.SelectStmt:
		for _, cl := range n.Body.List {
			cc := cl.(*ast.CommClause)
			switch s := cc.Comm.(type) {
			case *ast.SendStmt:
				x.skip[s] = true
			case *ast.ExprStmt:
				if u, ok := isRecv(s.X); ok {
					x.skip[u] = true
				}
			case *ast.AssignStmt:
				if u, ok := isRecv(s.Rhs[0]); ok {
					x.skip[u] = true
					delete(x.recv2, u)
				}
			}
		}
	case *ast.RangeStmt:
		t := x.info.TypeOf(n.X)
		if t != nil {
			switch t.Underlying().(type) {
			case *types.Chan:
				x.rangeKind[n] = 1
			case *types.Map:
				x.rangeKind[n] = 2
			}
		}
	}
	return true
}

func (x *xf) post(c *astutil.Cursor) bool {
	switch n := c.Node().(type) {
	case *ast.UnaryExpr:
		if n.Op == token.ARROW {
			if x.skip[n] {
				return true
			}
			st.Recv++
			if x.recv2[n] {
				c.Replace(call(x.vs("Recv2"), n.X))
			} else {
				c.Replace(call(x.vs("Recv"), n.X))
			}
			return true
		}
		if n.Op == token.AND {
			if _, ok := unparen(n.X).(*ast.CompositeLit); ok {
				if t := x.info.TypeOf(n.X); t != nil {
					if _, isStruct := t.Underlying().(*types.Struct); isStruct {
						st.New++
						c.Replace(call(x.vs("New"), n))
					}
				}
			}
		}
	case *ast.SendStmt:
		if x.skip[n] {
			return true
		}
		st.Send++
		c.Replace(&ast.ExprStmt{X: method(call(x.vs("S"), n.Chan), "Send", n.Value)})
	case *ast.CallExpr:
		if id, ok := n.Fun.(*ast.Ident); ok {
			if x.isBuiltin(id, "close") {
				st.Close++
				n.Fun = x.vs("Close")
				return true
			}
			// len/cap of a channel: a visible read of the modelled channel (its capacity may be a model parameter)
			if (x.isBuiltin(id, "len") || x.isBuiltin(id, "cap")) && len(n.Args) == 1 {
				if t := x.info.TypeOf(n.Args[0]); t != nil {
					if _, ok := t.Underlying().(*types.Chan); ok {
						if id.Name == "len" {
							n.Fun = x.vs("Len")
						} else {
							n.Fun = x.vs("Cap")
						}
						return true
					}
				}
			}
			if x.isBuiltin(id, "make") && len(n.Args) >= 1 {
				if t := x.info.TypeOf(n); t != nil {
					if _, ok := t.Underlying().(*types.Chan); ok {
						st.Make++
						if x.bufName != "" && len(n.Args) == 2 && x.refersTo(n.Args[1], x.bufName) {
							c.Replace(call(x.vs("MakeCap"), n, &ast.BasicLit{Kind: token.INT, Value: strconv.Itoa(x.bufVal)}))
						} else {
							c.Replace(call(x.vs("Make"), n))
						}
					}
				}
			}
		}
	case *ast.GoStmt:
		st.Go++
		c.Replace(x.rewriteGo(n))
	case *ast.SelectStmt:
		st.Select++
		c.Replace(x.rewriteSelect(n))
	case *ast.RangeStmt:
		switch x.rangeKind[n] {
		case 1:
			st.RangeChan++
			c.Replace(x.rewriteRangeChan(n))
		case 2:
			st.RangeMap++
			c.Replace(x.rewriteRangeMap(n))
		}
	case *ast.LabeledStmt:
		if b, ok := n.Stmt.(*ast.BlockStmt); ok {
			if idx, ok := x.wrapped[b]; ok {
				inner := b.List[idx]
				b.List[idx] = &ast.LabeledStmt{Label: n.Label, Stmt: inner}
				c.Replace(b)
			}
		}
	}
	return true
}

func (x *xf) refersTo(e ast.Expr, name string) bool {
	switch v := unparen(e).(type) {
	case *ast.Ident:
		return v.Name == name
	case *ast.SelectorExpr:
		return v.Sel.Name == name
	}
	return false
}

func (x *xf) rewriteGo(n *ast.GoStmt) ast.Stmt {
	site := *flagGoPrefix + filepath.Base(x.fset.Position(n.Pos()).Filename) + ":" + strconv.Itoa(x.fset.Position(n.Pos()).Line)
	name := &ast.BasicLit{Kind: token.STRING, Value: strconv.Quote(site)}
	callx := n.Call
	// go func(){...}() with no arguments: run the literal directly
	if fl, ok := unparen(callx.Fun).(*ast.FuncLit); ok && len(callx.Args) == 0 && fl.Type.Params.NumFields() == 0 && fl.Type.Results.NumFields() == 0 {
		return &ast.ExprStmt{X: call(x.vs("Go"), name, fl)}
	}
	var stmts []ast.Stmt
	fn := x.fresh("f")
	stmts = append(stmts, define(fn, callx.Fun))
	var args []ast.Expr
	sig, _ := x.info.TypeOf(n.Call.Fun).(*types.Signature)
	for i, a := range callx.Args {
		id := x.fresh("a")
		// keep untyped constants typed like the parameter by converting through a typed var when possible
		if tv, ok := x.info.Types[n.Call.Args[i]]; ok && tv.Value != nil && sig != nil {
			// constant argument: pass it inline (no side effects)
			args = append(args, a)
			continue
		}
		stmts = append(stmts, define(id, a))
		args = append(args, id)
	}
	inner := &ast.CallExpr{Fun: fn, Args: args, Ellipsis: callx.Ellipsis}
	if callx.Ellipsis != token.NoPos {
		inner.Ellipsis = 1
	}
	body := &ast.FuncLit{Type: &ast.FuncType{Params: &ast.FieldList{}}, Body: &ast.BlockStmt{List: []ast.Stmt{&ast.ExprStmt{X: inner}}}}
	stmts = append(stmts, &ast.ExprStmt{X: call(x.vs("Go"), name, body)})
	return &ast.BlockStmt{List: stmts}
}

func (x *xf) rewriteSelect(n *ast.SelectStmt) ast.Stmt {
	var stmts []ast.Stmt
	var caseExprs []ast.Expr
	var clauses []ast.Stmt
	hasDefault := false
	idx := 0
	sel := x.fresh("r")
	for _, cl := range n.Body.List {
		cc := cl.(*ast.CommClause)
		if cc.Comm == nil {
			hasDefault = true
			clauses = append(clauses, &ast.CaseClause{List: nil, Body: cc.Body})
			continue
		}
		var body []ast.Stmt
		switch s := cc.Comm.(type) {
		case *ast.SendStmt:
			cs := x.fresh("s")
			stmts = append(stmts, define(cs, method(call(x.vs("S"), s.Chan), "Case", s.Value)))
			caseExprs = append(caseExprs, cs)
		case *ast.ExprStmt:
			u, _ := isRecv(s.X)
			rx := x.fresh("c")
			stmts = append(stmts, define(rx, call(x.vs("R"), u.X)))
			caseExprs = append(caseExprs, method(rx, "Case"))
		case *ast.AssignStmt:
			u, _ := isRecv(s.Rhs[0])
			rx := x.fresh("c")
			stmts = append(stmts, define(rx, call(x.vs("R"), u.X)))
			caseExprs = append(caseExprs, method(rx, "Case"))
			m := "Val"
			if len(s.Lhs) == 2 {
				m = "Val2"
			}
			body = append(body, &ast.AssignStmt{Lhs: s.Lhs, Tok: s.Tok, Rhs: []ast.Expr{method(rx, m, sel)}})
			// silence "declared and not used" exactly where the original would not complain either: not needed,
			// the original has the same variables.
		}
		body = append(body, cc.Body...)
		clauses = append(clauses, &ast.CaseClause{
			List: []ast.Expr{&ast.BasicLit{Kind: token.INT, Value: strconv.Itoa(idx)}},
			Body: body,
		})
		idx++
	}
	hd := ast.NewIdent("false")
	if hasDefault {
		hd = ast.NewIdent("true")
	} else {
		// keeps the statement terminating exactly when the select was
		clauses = append(clauses, &ast.CaseClause{List: nil, Body: []ast.Stmt{
			&ast.ExprStmt{X: call(ast.NewIdent("panic"), call(x.vs("Unreachable")))}}})
	}
	args := append([]ast.Expr{hd}, caseExprs...)
	stmts = append(stmts, define(sel, call(x.vs("Select"), args...)))
	sw := &ast.SwitchStmt{
		Tag:  &ast.SelectorExpr{X: sel, Sel: ast.NewIdent("Index")},
		Body: &ast.BlockStmt{List: clauses},
	}
	stmts = append(stmts, sw)
	b := &ast.BlockStmt{List: stmts}
	x.wrapped[b] = len(stmts) - 1
	return b
}

func (x *xf) rewriteRangeChan(n *ast.RangeStmt) ast.Stmt {
	chv := x.fresh("ch")
	okv := x.fresh("ok")
	var lhs ast.Expr = ast.NewIdent("_")
	tok := token.DEFINE
	if n.Key != nil {
		lhs = n.Key
		if n.Tok == token.ASSIGN {
			tok = token.ASSIGN
		}
	}
	var recv ast.Stmt
	if tok == token.ASSIGN {
		// x = <-ch form: need a declared ok
		recv = &ast.BlockStmt{}
		_ = recv
	}
	var body []ast.Stmt
	if tok == token.DEFINE {
		body = append(body, &ast.AssignStmt{Lhs: []ast.Expr{lhs, okv}, Tok: token.DEFINE, Rhs: []ast.Expr{call(x.vs("Recv2"), chv)}})
	} else {
		body = append(body,
			&ast.DeclStmt{Decl: &ast.GenDecl{Tok: token.VAR, Specs: []ast.Spec{&ast.ValueSpec{Names: []*ast.Ident{okv}, Type: ast.NewIdent("bool")}}}},
			&ast.AssignStmt{Lhs: []ast.Expr{lhs, okv}, Tok: token.ASSIGN, Rhs: []ast.Expr{call(x.vs("Recv2"), chv)}})
	}
	body = append(body, &ast.IfStmt{Cond: &ast.UnaryExpr{Op: token.NOT, X: okv}, Body: &ast.BlockStmt{List: []ast.Stmt{&ast.BranchStmt{Tok: token.BREAK}}}})
	body = append(body, n.Body.List...)
	loop := &ast.ForStmt{Body: &ast.BlockStmt{List: body}}
	b := &ast.BlockStmt{List: []ast.Stmt{define(chv, n.X), loop}}
	x.wrapped[b] = 1
	return b
}

func (x *xf) rewriteRangeMap(n *ast.RangeStmt) ast.Stmt {
	mv := x.fresh("m")
	var key ast.Expr
	needKeyTmp := false
	if n.Key == nil {
		key = ast.NewIdent("_")
	} else if id, ok := n.Key.(*ast.Ident); ok && id.Name == "_" {
		needKeyTmp = true
	} else {
		key = n.Key
	}
	if n.Key == nil && n.Value == nil {
		// for range m {}
		loop := &ast.RangeStmt{Key: nil, Tok: token.ILLEGAL, X: call(x.vs("MapKeys"), mv), Body: n.Body}
		b := &ast.BlockStmt{List: []ast.Stmt{define(mv, n.X), loop}}
		x.wrapped[b] = 1
		return b
	}
	hasValue := n.Value != nil
	if id, ok := n.Value.(*ast.Ident); ok && id.Name == "_" {
		hasValue = false
	}
	if hasValue && (needKeyTmp || n.Key == nil) {
		key = x.fresh("k")
		needKeyTmp = true
	} else if needKeyTmp {
		key = ast.NewIdent("_")
		needKeyTmp = false
	}
	var body []ast.Stmt
	tok := n.Tok
	if needKeyTmp {
		tok = token.DEFINE
	}
	if hasValue {
		pv := x.fresh("p")
		vtok := n.Tok
		if vtok == token.DEFINE {
			body = append(body, &ast.AssignStmt{Lhs: []ast.Expr{n.Value, pv}, Tok: token.DEFINE, Rhs: []ast.Expr{&ast.IndexExpr{X: mv, Index: key}}})
		} else {
			body = append(body,
				&ast.DeclStmt{Decl: &ast.GenDecl{Tok: token.VAR, Specs: []ast.Spec{&ast.ValueSpec{Names: []*ast.Ident{pv}, Type: ast.NewIdent("bool")}}}},
				&ast.AssignStmt{Lhs: []ast.Expr{n.Value, pv}, Tok: token.ASSIGN, Rhs: []ast.Expr{&ast.IndexExpr{X: mv, Index: key}}})
		}
		body = append(body, &ast.IfStmt{Cond: &ast.UnaryExpr{Op: token.NOT, X: pv}, Body: &ast.BlockStmt{List: []ast.Stmt{&ast.BranchStmt{Tok: token.CONTINUE}}}})
	} else {
		pv := x.fresh("p")
		body = append(body, &ast.AssignStmt{Lhs: []ast.Expr{ast.NewIdent("_"), pv}, Tok: token.DEFINE, Rhs: []ast.Expr{&ast.IndexExpr{X: mv, Index: key}}})
		body = append(body, &ast.IfStmt{Cond: &ast.UnaryExpr{Op: token.NOT, X: pv}, Body: &ast.BlockStmt{List: []ast.Stmt{&ast.BranchStmt{Tok: token.CONTINUE}}}})
	}
	body = append(body, n.Body.List...)
	loop := &ast.RangeStmt{Key: ast.NewIdent("_"), Value: key, Tok: tok, X: call(x.vs("MapKeys"), mv), Body: &ast.BlockStmt{List: body}}
	if id, ok := key.(*ast.Ident); ok && id.Name == "_" {
		// key unused and no value: plain iteration count
		loop = &ast.RangeStmt{Key: nil, Tok: token.ILLEGAL, X: call(x.vs("MapKeys"), mv), Body: n.Body}
	}
	b := &ast.BlockStmt{List: []ast.Stmt{define(mv, n.X), loop}}
	x.wrapped[b] = 1
	return b
}

var _ = sort.Strings
