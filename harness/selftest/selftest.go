// Package selftest: small programs with known behaviour that validate the
// scheduler, the fingerprints, the reductions and the explorers.  Run by
// ./selftest.sh (and setup.sh); not a property check.
package selftest

import (
	"fmt"
	"sort"
	"strings"

	"verif/explore"
	"verif/runner"
	"verif/vs"
)

// indep: k goroutines, each doing m sends into its own buffered channel.
func indep(k, m int) explore.Scenario {
	return explore.Scenario{
		Name: fmt.Sprintf("selftest/indep/k%d/m%d", k, m), Mode: "S1",
		New: func() explore.Instance {
			done := 0
			return explore.Instance{
				Run: func() {
					fin := make(chan bool, k+1)
					for i := 0; i < k; i++ {
						go func() {
							ch := make(chan int, m+1)
							for j := 0; j < m; j++ {
								ch <- j
							}
							fin <- true
						}()
					}
					for i := 0; i < k; i++ {
						<-fin
						done++
					}
				},
				Check: func(r *vs.Result) []string {
					if done != k {
						return []string{"hang"}
					}
					return nil
				},
				Outcome: func() string { return fmt.Sprint(done) },
			}
		},
	}
}

// lostUpdate: two goroutines do read-then-write on a shared counter through two separate visible steps.
func lostUpdate(fixed bool) explore.Scenario {
	return explore.Scenario{
		Name: fmt.Sprintf("selftest/lostupdate/fixed=%v", fixed), Mode: "S1",
		New: func() explore.Instance {
			counter := 0
			return explore.Instance{
				Run: func() {
					fin := make(chan bool, 3)
					for i := 0; i < 2; i++ {
						go func() {
							if fixed {
								vs.Atomic("ctr", func() { counter++ })
							} else {
								v := 0
								vs.Atomic("ctr", func() { v = counter })
								vs.Atomic("ctr", func() { counter = v + 1 })
							}
							fin <- true
						}()
					}
					<-fin
					<-fin
				},
				Check: func(r *vs.Result) []string {
					if counter != 2 {
						return []string{fmt.Sprintf("lost update | counter=%d", counter)}
					}
					return nil
				},
				Outcome: func() string { return fmt.Sprint(counter) },
			}
		},
	}
}

// abba: two goroutines take two channel-semaphores in opposite (buggy) or the same (fixed) order.
func abba(fixed bool) explore.Scenario {
	return explore.Scenario{
		Name: fmt.Sprintf("selftest/abba/fixed=%v", fixed), Mode: "S1",
		New: func() explore.Instance {
			done := 0
			return explore.Instance{
				Run: func() {
					a := make(chan bool, 2)
					b := make(chan bool, 2)
					a <- true
					a <- true // capacity 2, filled: acquiring = receiving... use as binary semaphores below
					<-a
					b <- true
					fin := make(chan bool, 3)
					go func() { <-a; <-b; b <- true; a <- true; fin <- true }()
					go func() {
						if fixed {
							<-a
							<-b
							b <- true
							a <- true
						} else {
							<-b
							<-a
							a <- true
							b <- true
						}
						fin <- true
					}()
					<-fin
					done++
					<-fin
					done++
				},
				Check: func(r *vs.Result) []string {
					if done != 2 {
						return []string{"deadlock | AB/BA"}
					}
					return nil
				},
				Outcome: func() string { return fmt.Sprint(done) },
			}
		},
	}
}

// dropped: a non-blocking send into a small buffer loses an event iff the consumer is slow.
func dropped(fixed bool) explore.Scenario {
	return explore.Scenario{
		Name: fmt.Sprintf("selftest/dropped/fixed=%v", fixed), Mode: "S1",
		New: func() explore.Instance {
			got := 0
			return explore.Instance{
				Run: func() {
					ch := make(chan int, 2)
					fin := make(chan bool, 2)
					go func() {
						for i := 0; i < 3; i++ {
							if fixed {
								ch <- i
							} else {
								select {
								case ch <- i:
								default:
								}
							}
						}
						close(ch)
					}()
					go func() {
						for range ch {
							got++
						}
						fin <- true
					}()
					<-fin
				},
				Check: func(r *vs.Result) []string {
					if got != 3 {
						return []string{fmt.Sprintf("dropped | got %d of 3", got)}
					}
					return nil
				},
				Outcome: func() string { return fmt.Sprint(got) },
			}
		},
	}
}

// timerRace: a select between a timer and a message; both outcomes must be explored under the lazy policy.
func timerRace() explore.Scenario {
	return explore.Scenario{
		Name: "selftest/timerrace", Mode: "S1", Cfg: vs.Config{Timers: vs.TimersLazy},
		New: func() explore.Instance {
			out := ""
			return explore.Instance{
				Run: func() {
					msg := make(chan int, 2)
					go func() { msg <- 1 }()
					t := vs.NewTimer(5)
					select {
					case <-t.C:
						out = "timer"
					case <-msg:
						out = "msg"
					}
				},
				Outcome: func() string { return out },
			}
		},
	}
}

// lenRace: len(ch) is a visible read: both values must be seen.
func lenRace() explore.Scenario {
	return explore.Scenario{
		Name: "selftest/lenrace", Mode: "S1",
		New: func() explore.Instance {
			out := ""
			return explore.Instance{
				Run: func() {
					ch := make(chan int, 3)
					fin := make(chan bool, 2)
					go func() { ch <- 1; ch <- 2; fin <- true }()
					out = fmt.Sprintf("%d/%d", len(ch), cap(ch))
					<-fin
				},
				Outcome: func() string { return out },
			}
		},
	}
}

func outcomes(st *explore.Stats) string {
	var ks []string
	for k := range st.Outcomes {
		ks = append(ks, k)
	}
	sort.Strings(ks)
	return strings.Join(ks, ",")
}

func extra(tier string, seed int64) *runner.ExtraResult {
	res := &runner.ExtraResult{Name: "explorer self tests", Complete: true, Coverage: map[string]interface{}{}}
	fail := func(format string, args ...interface{}) {
		msg := fmt.Sprintf(format, args...)
		res.Violations = append(res.Violations, explore.Violation{Scenario: "selftest", Messages: []string{msg}, Signature: "selftest :: " + msg})
	}
	run := func(sc explore.Scenario, mode string, bound int) *explore.Stats {
		st := explore.Explore(sc, explore.Options{Mode: mode, Bound: bound})
		res.Evaluations += st.Executions
		res.States += st.States
		res.Transitions += st.Transitions
		if !st.Complete {
			fail("%s: exploration incomplete (%s)", sc.Name, st.CapHit)
		}
		return st
	}
	// known-bug programs are found, their fixed versions are clean
	for _, mk := range []func(bool) explore.Scenario{lostUpdate, abba, dropped} {
		buggy := run(mk(false), "S1", 0)
		fixed := run(mk(true), "S1", 0)
		if buggy.ViolationCount == 0 {
			fail("%s: known bug not found", mk(false).Name)
		} else {
			v := buggy.Violations[0]
			m1, _, _ := explore.Replay(mk(false), v.Choices)
			m2, _, _ := explore.Replay(mk(false), v.Choices)
			if len(m1) == 0 || strings.Join(m1, "|") != strings.Join(m2, "|") {
				fail("%s: violation does not replay deterministically (%v / %v)", mk(false).Name, m1, m2)
			}
			// iterative deviation bounding finds it with few deviations
			found := -1
			for d := 0; d <= 3 && found < 0; d++ {
				if run(mk(false), "S2", d).ViolationCount > 0 {
					found = d
				}
			}
			res.Coverage[mk(false).Name+" found with deviations"] = found
			if found < 0 {
				fail("%s: not found within 3 deviations", mk(false).Name)
			}
		}
		if fixed.ViolationCount != 0 {
			fail("%s: fixed version reports %v", mk(true).Name, fixed.Violations)
		}
		res.Distinct += 2
	}
	// reductions do not change the set of terminal outcomes; S2 with a large bound sees what S1 sees
	for _, sc := range []explore.Scenario{indep(2, 2), lostUpdate(false), dropped(false), timerRace(), lenRace()} {
		a := run(sc, "S1", 0)
		vs.NoEager = true
		b := run(sc, "S1", 0)
		vs.NoEager = false
		c := run(sc, "S2", 50)
		if outcomes(a) != outcomes(b) {
			fail("%s: eager reductions change the outcome set: %s vs %s", sc.Name, outcomes(a), outcomes(b))
		}
		if outcomes(a) != outcomes(c) {
			fail("%s: S2 with a large bound sees %s, S1 sees %s", sc.Name, outcomes(c), outcomes(a))
		}
		res.Distinct++
		res.Samples = append(res.Samples, fmt.Sprintf("%s: outcomes {%s}; states S1=%d, without eager rules=%d", sc.Name, outcomes(a), a.States, b.States))
	}
	if o := outcomes(run(lenRace(), "S1", 0)); o != "0/3,1/3,2/3" {
		fail("len race: expected the three lengths, got %s", o)
	}
	if o := outcomes(run(timerRace(), "S1", 0)); o != "msg,timer" {
		fail("timer race: expected both outcomes, got %s", o)
	}
	// independent goroutines: the state space is the product of the local ones, whatever the order
	if st := run(indep(3, 2), "S1", 0); st.Executions == 0 || len(st.Outcomes) != 1 {
		fail("indep: %d executions, outcomes %s", st.Executions, outcomes(st))
	}
	return res
}

func Property() runner.Property {
	return runner.Property{
		ID: "SELFTEST", Level: "model_checking", Rule: "engine self tests",
		Scenarios: func(tier string) []runner.Sc {
			return []runner.Sc{
				{Scenario: indep(2, 3)},
				{Scenario: indep(3, 3), Split: true},
				{Scenario: lostUpdate(true)},
				{Scenario: abba(true)},
				{Scenario: dropped(true)},
			}
		},
		Extra: extra,
	}
}
