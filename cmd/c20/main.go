package main

import (
	"verif/harness/c20"
	"verif/runner"
)

func main() { runner.Main(c20.Property()) }
