// Package c03: the controller converges to the API server at every relist,
// whatever went wrong.  Whole controller (real Builder.Create) against the
// scripted API server; faults are enumerated as scenarios, schedules are
// explored within a deviation bound.
package c03

import (
	"fmt"
	"strings"
	"time"

	metav1 "k8s.io/apimachinery/pkg/apis/meta/v1"

	"verif/harness/ctl"
	"verif/harness/fakeapi"
	"verif/harness/hx"
	"verif/runner"
	"verif/vs"
)

const P = 3 * time.Second

// contents the server goes through (reference), rendered as accepted lists.
func contents(c ctl.Cfg) []string {
	cur := map[string]metav1.Object{}
	rv := c.StartRV
	apply := func(m ctl.Mut) {
		if m.Op == "set" {
			rv++
			cur[m.Name] = hx.Pod("ns", m.Name, fmt.Sprint(rv), m.Labels)
		} else if _, ok := cur[m.Name]; ok {
			rv++
			delete(cur, m.Name)
		}
	}
	snap := func() string {
		var l []metav1.Object
		for _, o := range cur {
			l = append(l, o)
		}
		return ctl.Accepted(c.Filter, l)
	}
	for _, m := range c.Pre {
		apply(m)
	}
	out := []string{snap()}
	for _, m := range c.Hist {
		apply(m)
		out = append(out, snap())
	}
	return out
}

func oracle(in *ctl.Inst, r *vs.Result) []string {
	var msgs []string
	o := in.O
	desc := in.Desc()
	if o.CreateErr != nil {
		return []string{"create failed | " + o.CreateErr.Error()}
	}
	if !o.ObserverRan {
		return []string{fmt.Sprintf("harness | observer never ran: %s", desc)}
	}
	refs := contents(in.C)
	want := refs[len(refs)-1]
	if o.DoneAtRead {
		msgs = append(msgs, fmt.Sprintf("controller terminated | %s: the controller is done at observation time with error %q although no list failed", desc, o.ErrAtRead))
	} else {
		// premise of "after at most one further relist": some list took its snapshot after the last server change
		// (the system is quiescent, so every completed list has been applied)
		// and after the last stale frame a faulty stream replayed
		relisted := false
		after := 0
		for _, n := range o.StaleAtList {
			if n > after {
				after = n
			}
		}
		for i, rv := range o.ListRVs {
			if rv == o.ServerRV && i >= after {
				relisted = true
			}
		}
		if relisted && o.HistDoneAtRead {
			in.Converged = 1
			if o.CacheAtRead != want {
				msgs = append(msgs, fmt.Sprintf("cache did not converge to the server | %s: a list taken after the last server change has been applied (list snapshots at versions %v, server at %d) but the cache holds %s, the server's accepted objects are %s (watches at %v)", desc, o.ListRVs, o.ServerRV, o.CacheAtRead, want, o.WatchRVs))
			}
		}
	}
	// never regressing: with a healthy watch and a quiet server the cache cannot hold an older version than the server
	// (not with model buffers of one event: there a burst overflows the watch path itself, which is the documented loss)
	if !o.DoneAtRead && o.HistDoneAtRead && len(in.C.WatchFaults) == 0 && in.C.DefaultWatch.Kind == "" && in.C.Bufsiz == 0 && o.CacheAtRead != want {
		msgs = append(msgs, fmt.Sprintf("cache regressed or lost watch events | %s: the watch is healthy and the server is quiet, yet the cache holds %s while the server's accepted objects are %s (list snapshots at %v, server at %d)", desc, o.CacheAtRead, want, o.ListRVs, o.ServerRV))
	}
	// the watch never goes back in time: Watch calls carry non-decreasing versions (a relist moves the watch forward to
	// the list's version; only a stale list - configured explicitly - may move it back)
	staleList := false
	for _, f := range in.C.ListFaults {
		if f.Stale {
			staleList = true
		}
	}
	if !staleList {
		prev := -1
		for _, rv := range o.WatchRVs {
			var v int
			if _, err := fmt.Sscanf(rv, "%d", &v); err != nil {
				continue
			}
			if v < prev {
				msgs = append(msgs, fmt.Sprintf("watch resumed from a version older than a previous one | %s: Watch calls at versions %v (lists at %v)", desc, o.WatchRVs, o.ListRVs))
				break
			}
			prev = v
		}
	}
	if !o.Finished {
		msgs = append(msgs, fmt.Sprintf("Close hangs | %s: Close() did not return / Done() did not close (closes returned %d of %d); blocked: %v", desc, o.CloseReturned, o.ClosesIssued, ctl.BlockedNames(r)))
		return msgs
	}
	if lb := ctl.LibBlocked(r); len(lb) > 0 {
		msgs = append(msgs, fmt.Sprintf("goroutine leak | %s: after Done(): %v", desc, lb))
	}
	if o.MaxFlight > 1 {
		msgs = append(msgs, fmt.Sprintf("concurrent lists | %s: %d List calls in flight", desc, o.MaxFlight))
	}
	// Ready means synced (C08, controller clause): the cache read at readiness is a real accepted content
	if o.ReadySeen {
		ok := false
		for _, c := range refs {
			if c == o.ReadyList {
				ok = true
			}
		}
		if !ok {
			msgs = append(msgs, fmt.Sprintf("cache read at readiness is not a synced content | %s: List() right after Ready() returned %s, accepted server contents were %v", desc, o.ReadyList, refs))
		}
	} else if !o.DoneAtRead {
		msgs = append(msgs, fmt.Sprintf("never ready | %s", desc))
	}
	// keys that are absent from some accepted server content of the history (not there from the start, deleted, or
	// relabelled out of the filter): a list or a watch frame may legitimately remove those; the others never
	everLeaves := map[string]bool{}
	for i := range refs {
		for _, ob := range strings.Fields(strings.Trim(refs[i], "[]")) {
			k := ob[:strings.Index(ob, "@")]
			for j := range refs {
				if !strings.Contains(refs[j], k+"@") {
					everLeaves[k] = true
				}
			}
		}
	}
	staleFrames := in.C.DefaultWatch.Kind == "stale-delete"
	for _, f := range in.C.WatchFaults {
		if f.Kind == "stale-delete" {
			staleFrames = true
		}
	}
	// subscribers: events account for the difference, versions never regress, Get never older than the event (C05)
	hx.Walk(in.Nodes, func(n *hx.Node) {
		if !n.IsLeaf() || n.Spec.Kind != "sub" {
			return
		}
		if len(n.GetOlder) > 0 {
			msgs = append(msgs, fmt.Sprintf("cache older than event | %s: %v", desc, n.GetOlder))
		}
		ver := map[string]int{}
		for _, e := range n.Received {
			i := strings.Index(e, ":")
			typ, obj := e[:i], e[i+1:]
			key := obj[:strings.Index(obj, "@")]
			var v int
			fmt.Sscanf(obj[strings.Index(obj, "@")+1:], "%d", &v)
			if typ == "delete" {
				delete(ver, key)
				if !everLeaves[key] && !staleFrames {
					msgs = append(msgs, fmt.Sprintf("spurious delete | %s: the subscriber received %s although %s is in every accepted server content of the history (%v); events %v", desc, e, key, refs, n.Received))
				}
				continue
			}
			if pv, ok := ver[key]; ok && v <= pv {
				msgs = append(msgs, fmt.Sprintf("subscriber saw a version regress | %s: events %v", desc, n.Received))
				break
			}
			ver[key] = v
		}
		if o.NodeDone[n.Path] && !o.DoneAtRead {
			msgs = append(msgs, fmt.Sprintf("subscriber disconnected while the controller runs | %s: Done() of subscription %s is closed, the controller's is not; events %v", desc, n.Path, n.Received))
		}
		if o.ReadySeen && !o.DoneAtRead && in.C.Bufsiz == 0 {
			if got := hx.MirrorTolerant(o.ReadyList, n.Received); got != o.CacheAtRead {
				msgs = append(msgs, fmt.Sprintf("subscriber events do not account for the cache | %s: content at readiness %s + events %v = %s, cache holds %s", desc, o.ReadyList, n.Received, got, o.CacheAtRead))
			}
		}
	})
	return msgs
}

func Property() runner.Property {
	return runner.Property{
		ID:           "C03",
		Level:        "model_checking",
		QuickBudgetS: 600, ThoroughBudgetS: 3000,
		Rule: "whole controller (real Builder.Create with lister, ticker, watcher, sessions, cache, root subscription, publisher) against a scripted API server; refresh period 3s, watch retry 1s, virtual time; server histories of <= 4 mutations over 2 keys (label flips in and out of the controller filter), some delayed past the first relist; fault scenarios enumerated: watch never connects (error forever), watch closes after k frames, dropped / duplicated frames, status and bookmark frames, slow first list racing with watch events, list slower than the period; schedules explored within d deviations of the default schedule (d=2 quick, 3 thorough), timers racing with computation; oracle when the system is quiescent more than one period after the last server change: cache = accepted(server); cache read at the instant Ready() closed is a real accepted content; an unfiltered subscriber's events never regress a version, account for the cache, and Cache().Get after an event is never older than it; at most one List in flight; Close returns and nothing leaks",
		Assumptions: []string{
			"deviation-bounded (whole-controller executions have 300-900 steps); the unbounded counterparts are the narrow seams of C01/C02 (reconciliation), C04 (watcher), C13 (lister/ticker), C05 (fan-out)",
			"fuzz draw fixed at the middle value in these scenarios (the fuzz is explored in C13)",
		},
		Scenarios: func(tier string) []runner.Sc {
			d := 2
			if tier == "thorough" {
				d = 3
			}
			sub := []hx.Spec{{Kind: "sub"}}
			h := []ctl.Mut{{Op: "set", Name: "a", Labels: "l=1"}, {Op: "set", Name: "b", Labels: "l=0"}, {Op: "set", Name: "a", Labels: "l=0"}, {Op: "del", Name: "b"}}
			late := []ctl.Mut{{Op: "set", Name: "a", Labels: "l=0"}, {Op: "set", Name: "b", Labels: "l=1", Delay: 4 * time.Second}}
			pre := []ctl.Mut{{Op: "set", Name: "a", Labels: "l=1"}}
			W := func(k string, after int) fakeapi.WatchFault { return fakeapi.WatchFault{Kind: k, After: after} }
			mk := func(name string, c ctl.Cfg) runner.Sc {
				c.Name, c.Period, c.Tree, c.Mode = name, P, sub, "S2"
				if c.Bound == 0 {
					c.Bound = d
				}
				if c.Defaults {
					c.Period = time.Minute
				}
				if c.Bufsiz > 0 && !strings.HasSuffix(name, "+subscriber") {
					c.Tree = nil
				}
				if c.ReadAt == 0 {
					c.ReadAt = 8 * time.Second
				}
				return ctl.Scenario("C03", c, oracle)
			}
			out := []runner.Sc{
				mk("nofault/null/h3", ctl.Cfg{Pre: pre, Hist: h[:3]}),
				mk("nofault/l=1/h4", ctl.Cfg{Filter: 2, Pre: pre, Hist: h}),
				mk("watch-never-connects/late", ctl.Cfg{Pre: pre, Hist: late, DefaultWatch: W("error", 0)}),
				mk("watch-close@1/h3", ctl.Cfg{Pre: pre, Hist: h[:3], WatchFaults: map[int]fakeapi.WatchFault{1: W("close", 1)}}),
				mk("watch-drop@0/late", ctl.Cfg{Filter: 2, Pre: pre, Hist: late, WatchFaults: map[int]fakeapi.WatchFault{1: W("drop", 0)}}),
				mk("watch-dup@0/h3", ctl.Cfg{Pre: pre, Hist: h[:3], WatchFaults: map[int]fakeapi.WatchFault{1: W("dup", 0)}}),
				mk("watch-status@1/h3", ctl.Cfg{Pre: pre, Hist: h[:3], WatchFaults: map[int]fakeapi.WatchFault{1: W("status", 1)}}),
				mk("slow-first-list/h3", ctl.Cfg{Pre: pre, Hist: h[:3], ListFaults: map[int]fakeapi.ListFault{1: {Latency: 2 * time.Second}}}),
				mk("list-slower-than-period/late", ctl.Cfg{Pre: pre, Hist: late, ListFaults: map[int]fakeapi.ListFault{2: {Latency: 4 * time.Second}}, ReadAt: 14 * time.Second}),
				// a slow relist whose snapshot predates watch events that were applied meanwhile: nothing may regress
				mk("stale-relist/late-update", ctl.Cfg{Pre: pre, Hist: []ctl.Mut{{Op: "set", Name: "a", Labels: "l=1", Delay: 3500 * time.Millisecond}, {Op: "set", Name: "b", Labels: "l=1"}}, ListFaults: map[int]fakeapi.ListFault{2: {Latency: time.Second, Stale: true}}, ReadAt: 5 * time.Second}),
				// delete + re-create around a relist, the re-create frame lost by the stream: a stale delete still in the
				// watcher's buffer must not undo what the list installed
				mk("recreate-around-relist/close@1", ctl.Cfg{Pre: pre, Hist: []ctl.Mut{{Op: "del", Name: "a", Delay: 3 * time.Second}, {Op: "set", Name: "a", Labels: "l=1"}}, WatchFaults: map[int]fakeapi.WatchFault{1: W("close", 1)}, ReadAt: 5 * time.Second}),
				mk("watch-blocks-forever/late", ctl.Cfg{Pre: pre, Hist: late, DefaultWatch: W("block", 0)}),
				// the stream closes shortly before a relist completes (the reconnect is still pending when the relist
				// resets the watch): the watch must go on from the list's version
				mk("watch-closes-just-before-relist/recreate", ctl.Cfg{Pre: pre, Hist: []ctl.Mut{{Op: "del", Name: "a", Delay: 2500 * time.Millisecond}, {Op: "set", Name: "a", Labels: "l=1"}}, WatchFaults: map[int]fakeapi.WatchFault{1: W("close", 2)}, ReadAt: 8 * time.Second}),
				// a list that names every object twice (its previous version after the current one), under a label filter
				mk("list-with-older-duplicates/l=1", ctl.Cfg{Filter: 2, Pre: pre, Hist: []ctl.Mut{{Op: "set", Name: "a", Labels: "l=0", Delay: time.Second}, {Op: "set", Name: "b", Labels: "l=1"}}, DefaultWatch: W("error", 0), ListFaults: map[int]fakeapi.ListFault{2: {Kind: "dup-old"}, 3: {Kind: "dup-old"}}, ReadAt: 8 * time.Second}),
				// everything is deleted on the server and the watch never reports it: the (empty) relist must clear the cache
				mk("relist-to-empty-server/watch-never-connects", ctl.Cfg{Pre: pre, Hist: []ctl.Mut{{Op: "del", Name: "a", Delay: 4 * time.Second}}, DefaultWatch: W("error", 0), ReadAt: 8 * time.Second}),
				// the watch opened after relist #2 replays a stale DELETED frame and the server stays quiet: only relist #3
				// (whose list carries the same resourceVersion as #2) can repair the cache
				mk("stale-delete-replayed-after-relist/quiet", ctl.Cfg{Pre: pre, Hist: []ctl.Mut{{Op: "set", Name: "b", Labels: "l=1", Delay: time.Second}}, WatchFaults: map[int]fakeapi.WatchFault{2: W("stale-delete", 0)}, ReadAt: 10 * time.Second}),
			}
			// overflowed events: every event buffer holds one event only, so bursts are dropped somewhere on the way;
			// the next relist must repair the cache (no subscriber: its own buffer would overflow legitimately)
			burst := []ctl.Mut{{Op: "set", Name: "a", Labels: "l=0", Delay: time.Second}, {Op: "set", Name: "b", Labels: "l=1"}, {Op: "set", Name: "a", Labels: "l=1"}, {Op: "del", Name: "b"}}
			// the controller is busy in a slow filter while a burst arrives (buffers of one event): whatever is dropped,
			// nothing may wedge, and the next relist repairs the cache
			out = append(out, mk("overflow/bufsiz1/slow-filter+burst4", ctl.Cfg{Pre: pre, Hist: burst, Bufsiz: 1, SlowOn: "a", ReadAt: 12 * time.Second}))
			ov := mk("overflow/bufsiz1/burst4", ctl.Cfg{Pre: pre, Hist: burst, Bufsiz: 1})
			out = append(out, ov)
			// the same with a subscriber: it legitimately misses events, but it stays subscribed while the controller runs
			out = append(out, mk("overflow/bufsiz1/burst4+subscriber", ctl.Cfg{Pre: pre, Hist: burst, Bufsiz: 1}))
			// scale, on the default schedule: 150 changes 20 ms apart (two relists fall into the stream; versions pass
			// 9, 99 and, from 950, 999) and a server holding 300 objects - nothing depends on how much has passed
			{
				var long []ctl.Mut
				for i := 0; i < 150; i++ {
					switch i % 4 {
					case 0:
						long = append(long, ctl.Mut{Op: "set", Name: "a", Labels: "l=0", Delay: 20 * time.Millisecond})
					case 1:
						long = append(long, ctl.Mut{Op: "set", Name: "b", Labels: "l=1", Delay: 20 * time.Millisecond})
					case 2:
						long = append(long, ctl.Mut{Op: "set", Name: "a", Labels: "l=1", Delay: 20 * time.Millisecond})
					default:
						long = append(long, ctl.Mut{Op: "del", Name: "b", Delay: 20 * time.Millisecond})
					}
				}
				for _, start := range []int{0, 950} {
					s := mk(fmt.Sprintf("long-history/150-changes/from%d", start), ctl.Cfg{Pre: pre, Hist: long, StartRV: start, ReadAt: 8 * time.Second})
					s.Scenario.Mode, s.Scenario.Bound = "D0", 0
					out = append(out, s)
				}
				// a burst well below every buffer of the path (30 changes at once, buffers hold 100): nothing is lost,
				// however far any stage lags behind (deviation-bounded: which stage lags is the schedule's choice)
				// the convenience constructor and its defaults (no filter, one list a minute): the late change is lost by the
				// watch and found by the first relist
				{
					s := mk("defaults/NewController/watch-drop@0/late", ctl.Cfg{Defaults: true, Bound: 1, Pre: pre, Hist: []ctl.Mut{{Op: "set", Name: "a", Labels: "l=0"}, {Op: "set", Name: "b", Labels: "l=1", Delay: 4 * time.Second}}, WatchFaults: map[int]fakeapi.WatchFault{1: W("drop", 0)}, ReadAt: 70 * time.Second})
					out = append(out, s)
					out = append(out, mk("defaults/NewController/nofault/h3", ctl.Cfg{Defaults: true, Bound: 1, Pre: pre, Hist: h[:3]}))
				}
				out = append(out, burstScenario(pre, long[:30], ""))
				// ... in particular the controller's own publisher (made slow through its log line)
				out = append(out, burstScenario(pre, long[:30], "distribute event:"))
				var many []ctl.Mut
				for i := 0; i < 300; i++ {
					many = append(many, ctl.Mut{Op: "set", Name: fmt.Sprintf("o%03d", i), Labels: fmt.Sprintf("l=%d", i%2)})
				}
				for _, f := range []int{0, 2} {
					s := mk(fmt.Sprintf("large-server/300-objects/filter%d", f), ctl.Cfg{Filter: f, Pre: many, Hist: h[:3], ReadAt: 8 * time.Second})
					s.Scenario.Mode, s.Scenario.Bound = "D0", 0
					out = append(out, s)
				}
			}
			if tier == "thorough" {
				out = append(out,
					mk("watch-bookmark@0/h4", ctl.Cfg{Filter: 2, Pre: pre, Hist: h, WatchFaults: map[int]fakeapi.WatchFault{1: W("bookmark", 0)}}),
					mk("watch-close@0,close@1/h4", ctl.Cfg{Pre: pre, Hist: h, WatchFaults: map[int]fakeapi.WatchFault{1: W("close", 0), 2: W("close", 1)}}),
					mk("watch-garbage@1/late", ctl.Cfg{Pre: pre, Hist: late, WatchFaults: map[int]fakeapi.WatchFault{1: W("garbage", 1)}}),
					mk("watch-error-twice/late", ctl.Cfg{Pre: pre, Hist: late, WatchFaults: map[int]fakeapi.WatchFault{1: W("error", 0), 2: W("error", 0)}}),
				)
			}
			return out
		},
	}
}

// C05Controller: the whole-controller half of C05 - through the real controller (cache updated before the
// events are distributed; lists racing with watch events) a subscriber and a subscriber of a clone see every
// event once, in order, never an older version after a newer one, and Cache().Get after an event is never older.
func C05Controller(tier string) []runner.Sc {
	d := 2
	if tier == "thorough" {
		d = 3
	}
	tree := []hx.Spec{{Kind: "sub"}, {Kind: "clone", Children: []hx.Spec{{Kind: "sub"}}}}
	pre := []ctl.Mut{{Op: "set", Name: "a", Labels: "l=1"}}
	orc := func(in *ctl.Inst, r *vs.Result) []string {
		var msgs []string
		o := in.O
		if o.CreateErr != nil || !o.ObserverRan {
			return []string{"harness | controller scenario did not run: " + in.Desc()}
		}
		var streams []string
		hx.Walk(in.Nodes, func(n *hx.Node) {
			if !n.IsLeaf() {
				return
			}
			if len(n.GetOlder) > 0 {
				msgs = append(msgs, fmt.Sprintf("cache older than event | %s: leaf %s: %v", in.Desc(), n.Path, n.GetOlder))
			}
			ver := map[string]int{}
			for _, e := range n.Received {
				i := strings.Index(e, ":")
				typ, obj := e[:i], e[i+1:]
				key := obj[:strings.Index(obj, "@")]
				var v int
				fmt.Sscanf(obj[strings.Index(obj, "@")+1:], "%d", &v)
				if typ == "delete" {
					delete(ver, key)
					continue
				}
				if pv, ok := ver[key]; ok && v <= pv {
					msgs = append(msgs, fmt.Sprintf("subscriber saw a duplicate or older version | %s: leaf %s events %v", in.Desc(), n.Path, n.Received))
					break
				}
				ver[key] = v
			}
			streams = append(streams, strings.Join(n.Received, " "))
			// every change of the cache was published to it: its events, replayed over the content at readiness, give the cache
			if o.ReadySeen && !o.DoneAtRead {
				if got := hx.MirrorTolerant(o.ReadyList, n.Received); got != o.CacheAtRead {
					msgs = append(msgs, fmt.Sprintf("subscriber missed a published change | %s: leaf %s: content at readiness %s + events %v = %s, the cache holds %s", in.Desc(), n.Path, o.ReadyList, n.Received, got, o.CacheAtRead))
				}
			}
		})
		// all subscribers that existed from the start agree on the sequence
		for _, s := range streams[1:] {
			if s != streams[0] {
				msgs = append(msgs, fmt.Sprintf("subscribers disagree on the event sequence | %s: %v", in.Desc(), streams))
				break
			}
		}
		return msgs
	}
	mk := func(name string, c ctl.Cfg) runner.Sc {
		c.Name, c.Period, c.Tree, c.Pre, c.Mode = "controller/"+name, P, tree, pre, "S2"
		if c.Bound == 0 {
			c.Bound = d
		}
		if c.ReadAt == 0 {
			c.ReadAt = 5 * time.Second
		}
		return ctl.Scenario("C05", c, orc)
	}
	h := []ctl.Mut{{Op: "set", Name: "a", Labels: "l=1"}, {Op: "set", Name: "b", Labels: "l=0"}, {Op: "del", Name: "b"}}
	return []runner.Sc{
		mk("watch-events", ctl.Cfg{Hist: h}),
		mk("stale-relist", ctl.Cfg{Hist: []ctl.Mut{{Op: "set", Name: "a", Labels: "l=1", Delay: 3500 * time.Millisecond}, {Op: "set", Name: "b", Labels: "l=1"}}, ListFaults: map[int]fakeapi.ListFault{2: {Latency: time.Second, Stale: true}}}),
		// the watch loses a delete that comes after newer events for other objects: the relist's Delete (which carries
		// the old cached version) must still reach every subscriber
		mk("watch-drops-delete/relist-finds-it", ctl.Cfg{Hist: []ctl.Mut{{Op: "set", Name: "b", Labels: "l=1"}, {Op: "del", Name: "a"}}, WatchFaults: map[int]fakeapi.WatchFault{1: {Kind: "drop", After: 1}}, ReadAt: 8 * time.Second}),
		// 30 changes at once - far below every buffer on the way (100) - with the controller's own publisher made slow
		// (its log line takes 2 ms) and without: every subscriber receives all of them
		mk("burst-of-30/slow-publisher", ctl.Cfg{Hist: burst30(), SlowLogPrefix: "distribute event:", ReadAt: 2 * time.Second, Bound: 1}),
		mk("burst-of-30", ctl.Cfg{Hist: burst30(), ReadAt: 2 * time.Second, Bound: 1}),
	}
}

func burst30() []ctl.Mut {
	var h []ctl.Mut
	for i := 0; i < 30; i++ {
		switch i % 4 {
		case 0:
			h = append(h, ctl.Mut{Op: "set", Name: "a", Labels: "l=0"})
		case 1:
			h = append(h, ctl.Mut{Op: "set", Name: "b", Labels: "l=1"})
		case 2:
			h = append(h, ctl.Mut{Op: "set", Name: "a", Labels: "l=1"})
		default:
			h = append(h, ctl.Mut{Op: "del", Name: "b"})
		}
	}
	return h
}

// C02Controller: the public-path half of C02 - through the real controller an unfiltered subscriber (and a
// subscriber of a clone) that replays the events over the content at readiness never meets an ill-formed step
// that the version rules cannot explain, and ends up with exactly the controller's cache.
func C02Controller(tier string) []runner.Sc {
	d := 2
	if tier == "thorough" {
		d = 3
	}
	tree := []hx.Spec{{Kind: "sub"}, {Kind: "clone", Children: []hx.Spec{{Kind: "sub"}}}}
	pre := []ctl.Mut{{Op: "set", Name: "a", Labels: "l=1"}}
	late := []ctl.Mut{{Op: "set", Name: "a", Labels: "l=0"}, {Op: "set", Name: "b", Labels: "l=1", Delay: 4 * time.Second}, {Op: "del", Name: "a"}}
	W := func(k string, after int) fakeapi.WatchFault { return fakeapi.WatchFault{Kind: k, After: after} }
	orc := func(in *ctl.Inst, r *vs.Result) []string {
		var msgs []string
		o := in.O
		if o.CreateErr != nil || !o.ObserverRan {
			return []string{"harness | controller scenario did not run: " + in.Desc()}
		}
		if !o.ReadySeen || o.DoneAtRead {
			return nil
		}
		hx.Walk(in.Nodes, func(n *hx.Node) {
			if !n.IsLeaf() {
				return
			}
			if got := hx.MirrorTolerant(o.ReadyList, n.Received); got != o.CacheAtRead {
				msgs = append(msgs, fmt.Sprintf("published events are not the delta of the cache | %s: leaf %s: content at readiness %s + events %v = %s, but the controller cache holds %s", in.Desc(), n.Path, o.ReadyList, n.Received, got, o.CacheAtRead))
			}
			// consecutive duplicates / regressions cannot come from a well-formed delta
			ver := map[string]int{}
			for _, e := range n.Received {
				i := strings.Index(e, ":")
				typ, obj := e[:i], e[i+1:]
				key := obj[:strings.Index(obj, "@")]
				var v int
				fmt.Sscanf(obj[strings.Index(obj, "@")+1:], "%d", &v)
				if typ == "delete" {
					if _, ok := ver[key]; !ok && false {
						msgs = append(msgs, "delete of absent key")
					}
					delete(ver, key)
					continue
				}
				if pv, ok := ver[key]; ok && (v <= pv || typ == "create") {
					msgs = append(msgs, fmt.Sprintf("published event is not well-formed | %s: leaf %s: %s after version %d of the same key (events %v)", in.Desc(), n.Path, e, pv, n.Received))
					break
				}
				ver[key] = v
			}
		})
		return msgs
	}
	mk := func(name string, c ctl.Cfg) runner.Sc {
		c.Name, c.Period, c.Tree, c.Pre, c.Mode, c.Bound = "controller/"+name, P, tree, pre, "S2", d
		if c.ReadAt == 0 {
			c.ReadAt = 8 * time.Second
		}
		return ctl.Scenario("C02", c, orc)
	}
	return []runner.Sc{
		mk("relists-only", ctl.Cfg{Hist: late, DefaultWatch: W("error", 0)}),
		mk("watch+relist", ctl.Cfg{Hist: late}),
		mk("stale-relist", ctl.Cfg{Hist: []ctl.Mut{{Op: "set", Name: "a", Labels: "l=1", Delay: 3500 * time.Millisecond}, {Op: "set", Name: "b", Labels: "l=1"}}, ListFaults: map[int]fakeapi.ListFault{2: {Latency: time.Second, Stale: true}}, ReadAt: 5 * time.Second}),
		mk("watch-drop@0", ctl.Cfg{Hist: late, WatchFaults: map[int]fakeapi.WatchFault{1: W("drop", 0)}}),
	}
}

// burstScenario: the history without its pacing (all changes at once), a subscriber, real buffer sizes.
func burstScenario(pre, hist []ctl.Mut, slow string) runner.Sc {
	var h []ctl.Mut
	for _, m := range hist {
		m.Delay = 0
		h = append(h, m)
	}
	name := "burst-below-the-buffers/30-changes"
	if slow != "" {
		name += "/slow-publisher"
	}
	c := ctl.Cfg{Name: name, SlowLogPrefix: slow, Period: P, Tree: []hx.Spec{{Kind: "sub"}}, Mode: "S2", Bound: 1, Pre: pre, Hist: h, ReadAt: 2 * time.Second}
	return ctl.Scenario("C03", c, oracle)
}
