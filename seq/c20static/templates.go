package c20static

import (
	"bufio"
	"bytes"
	"fmt"
	"go/ast"
	"go/parser"
	"go/scanner"
	"go/token"
	"os"
	"path/filepath"
	"reflect"
	"strconv"
	"strings"
	"text/template"
	"unicode"

	"verif/explore"
	"verif/runner"
)

const scenarioTemplates = "c20/templates"

// ---------------------------------------------------------------------------
// genny's substitution rules (github.com/cheekybits/genny v1.0.0, parse/parse.go)

func gennyWordify(s string, exported bool) string {
	s = strings.TrimRight(s, "{}")
	s = strings.TrimLeft(s, "*&")
	s = strings.Replace(s, ".", "", -1)
	if !exported || s == "" {
		return s
	}
	return strings.ToUpper(string(s[0])) + s[1:]
}

func gennyIsExported(lit string) bool {
	return len(lit) > 0 && unicode.IsUpper(rune(lit[0]))
}

// gennySubIntoLiteral is what genny does to every identifier and literal token
// of a line that mentions the generic type: the bare name becomes the specific
// type, a name that merely contains it gets the "wordified" type spliced in.
func gennySubIntoLiteral(lit, generic, specific string) string {
	if lit == generic {
		return specific
	}
	if !strings.Contains(lit, generic) {
		return lit
	}
	lg := gennyWordify(specific, true)
	sm := gennyWordify(specific, false)
	result := strings.Replace(lit, generic, lg, -1)
	if strings.HasPrefix(result, lg) && !gennyIsExported(lit) {
		return strings.Replace(result, lg, sm, 1)
	}
	return result
}

// ---------------------------------------------------------------------------
// Instantiation 1 (the oracle): substitution on the syntax tree.

type astInst struct {
	generic, specific string
	problems          []string
	substitutions     int
	spliced           int // identifiers/literals that merely contain the generic name
	at                token.Pos
}

func (in *astInst) newSpecific() ast.Expr {
	e, err := parser.ParseExpr(in.specific)
	if err != nil {
		in.problems = append(in.problems, fmt.Sprintf("specific type %q is not a Go expression: %v", in.specific, err))
		return ast.NewIdent(in.specific)
	}
	setPos(reflect.ValueOf(e), in.at)
	return e
}

// setPos gives every node of a spliced-in expression the position of the
// identifier it replaces (only matters for rendering in messages).
func setPos(v reflect.Value, at token.Pos) {
	switch v.Kind() {
	case reflect.Interface, reflect.Ptr:
		if !v.IsNil() {
			setPos(v.Elem(), at)
		}
	case reflect.Struct:
		for i := 0; i < v.NumField(); i++ {
			f := v.Field(i)
			if f.Type() == posType {
				if f.CanSet() {
					f.SetInt(int64(at))
				}
				continue
			}
			if f.Type() == objType || f.Type() == scopeType {
				continue
			}
			setPos(f, at)
		}
	case reflect.Slice:
		for i := 0; i < v.Len(); i++ {
			setPos(v.Index(i), at)
		}
	}
}

var exprType = reflect.TypeOf((*ast.Expr)(nil)).Elem()

func (in *astInst) walk(v reflect.Value) {
	switch v.Kind() {
	case reflect.Interface:
		if v.IsNil() {
			return
		}
		if id, ok := v.Elem().Interface().(*ast.Ident); ok && id.Name == in.generic {
			if v.Type() == exprType && v.CanSet() {
				in.at = id.NamePos
				v.Set(reflect.ValueOf(in.newSpecific()))
				in.substitutions++
			} else {
				in.problems = append(in.problems, fmt.Sprintf("generic name %s occurs where no type expression can be put (%s)", in.generic, v.Type()))
			}
			return
		}
		in.walk(v.Elem())
	case reflect.Ptr:
		if v.IsNil() {
			return
		}
		switch v.Type() {
		case objType, scopeType, cgType:
			return
		}
		switch x := v.Interface().(type) {
		case *ast.Ident:
			if x.Name == in.generic {
				in.problems = append(in.problems, fmt.Sprintf("generic name %s is used as a plain identifier (declared name, field or selector), which a pointer type cannot replace", in.generic))
				return
			}
			if strings.Contains(x.Name, in.generic) {
				x.Name = gennySubIntoLiteral(x.Name, in.generic, in.specific)
				in.spliced++
			}
			return
		case *ast.BasicLit:
			if strings.Contains(x.Value, in.generic) {
				x.Value = gennySubIntoLiteral(x.Value, in.generic, in.specific)
				in.spliced++
			}
			return
		}
		in.walk(v.Elem())
	case reflect.Struct:
		for i := 0; i < v.NumField(); i++ {
			if v.Type().Field(i).Type == posType {
				continue
			}
			in.walk(v.Field(i))
		}
	case reflect.Slice:
		for i := 0; i < v.Len(); i++ {
			in.walk(v.Index(i))
		}
	}
}

// isGenericPlaceholder reports whether spec is `type X generic.Type` / `generic.Number`.
func isGenericPlaceholder(spec ast.Spec) (string, bool) {
	ts, ok := spec.(*ast.TypeSpec)
	if !ok {
		return "", false
	}
	sel, ok := ts.Type.(*ast.SelectorExpr)
	if !ok {
		return "", false
	}
	if x, ok := sel.X.(*ast.Ident); ok && x.Name == "generic" && (sel.Sel.Name == "Type" || sel.Sel.Name == "Number") {
		return ts.Name.Name, true
	}
	return "", false
}

// instantiateAST parses the template and instantiates it for one type.
// tmplImports are the template's own import bindings minus genny's generic package.
func instantiateAST(src []byte, name string, t typeTuple) (f *ast.File, fset *token.FileSet, tmplImports map[string]string, in *astInst, err error) {
	fset = token.NewFileSet()
	f, err = parser.ParseFile(fset, name, src, parser.SkipObjectResolution)
	if err != nil {
		return nil, nil, nil, nil, err
	}
	in = &astInst{generic: t.Generic, specific: t.Specific}
	f.Name.Name = t.Pkg
	tmplImports = importBindings(f)
	for n, p := range tmplImports {
		if p == "github.com/cheekybits/genny/generic" {
			delete(tmplImports, n)
		}
	}
	foundPlaceholder := false
	var decls []ast.Decl
	for _, d := range f.Decls {
		g, ok := d.(*ast.GenDecl)
		if !ok || g.Tok != token.TYPE {
			decls = append(decls, d)
			continue
		}
		var specs []ast.Spec
		for _, s := range g.Specs {
			if n, ok := isGenericPlaceholder(s); ok {
				if n == t.Generic {
					foundPlaceholder = true
				} else {
					in.problems = append(in.problems, fmt.Sprintf("template declares generic type %s for which the Makefile gives no specific type", n))
				}
				continue
			}
			specs = append(specs, s)
		}
		if len(specs) == 0 {
			continue
		}
		g.Specs = specs
		decls = append(decls, g)
	}
	f.Decls = decls
	if !foundPlaceholder {
		in.problems = append(in.problems, fmt.Sprintf("template does not declare `type %s generic.Type`", t.Generic))
	}
	in.walk(reflect.ValueOf(f))
	return f, fset, tmplImports, in, nil
}

// ---------------------------------------------------------------------------
// Instantiation 2 (cross-check): genny's own line/token based algorithm,
// transcribed from parse.go, without the final goimports pass.

func gennySubTypeIntoLine(line, generic, specific string) string {
	src := []byte(line)
	var s scanner.Scanner
	fset := token.NewFileSet()
	file := fset.AddFile("", fset.Base(), len(src))
	s.Init(file, src, nil, scanner.ScanComments)
	var out strings.Builder
	for {
		_, tok, lit := s.Scan()
		if tok == token.EOF {
			break
		} else if tok == token.COMMENT {
			for _, w := range strings.Fields(lit) {
				out.WriteString(gennySubIntoLiteral(w, generic, specific) + " ")
			}
			out.WriteString(" ")
		} else if tok.IsLiteral() {
			out.WriteString(gennySubIntoLiteral(lit, generic, specific) + " ")
		} else {
			out.WriteString(tok.String() + " ")
		}
	}
	return out.String()
}

func gennyText(src []byte, t typeTuple) []byte {
	var buf bytes.Buffer
	comment := ""
	sc := bufio.NewScanner(bytes.NewReader(src))
	sc.Buffer(make([]byte, 1<<20), 1<<20)
	for sc.Scan() {
		line := sc.Text()
		if strings.Contains(line, "generic.Type") || strings.Contains(line, "generic.Number") {
			comment = ""
			continue
		}
		if strings.Contains(line, t.Generic) {
			line = gennySubTypeIntoLine(line, t.Generic, t.Specific)
		}
		if comment != "" {
			buf.WriteString(strings.TrimRight(comment, "\r\n") + "\n")
			comment = ""
		}
		if strings.HasPrefix(line, "//") {
			comment = line
			continue
		}
		buf.WriteString(strings.TrimRight(line, "\r\n") + "\n")
	}
	// clean-up pass: drop import declarations (goimports re-creates them), rename the package
	var out bytes.Buffer
	insideImport, pkgDone := false, false
	sc = bufio.NewScanner(bytes.NewReader(buf.Bytes()))
	sc.Buffer(make([]byte, 1<<20), 1<<20)
	for sc.Scan() {
		l := sc.Text()
		if insideImport {
			if strings.HasSuffix(l, ")") {
				insideImport = false
			}
			continue
		}
		if strings.HasPrefix(l, "package") {
			if pkgDone {
				continue
			}
			pkgDone = true
			parts := strings.Split(l, " ")
			if len(parts) > 1 {
				parts[1] = t.Pkg
			}
			l = strings.Join(parts, " ")
		} else if strings.HasPrefix(l, "import") {
			if strings.HasSuffix(l, "(") {
				insideImport = true
			}
			continue
		}
		if strings.HasPrefix(l, "//go:generate genny ") {
			continue
		}
		out.WriteString(l + "\n")
	}
	return out.Bytes()
}

// ---------------------------------------------------------------------------
// Join generator (join/gen/main.go)

type joinGen struct {
	tmplText string
	tmpl     *template.Template
	fields   map[string]int // template field -> os.Args index
	nargs    int            // required len(os.Args)
	imports  map[string]string
}

// loadJoinGen extracts, by parsing join/gen/main.go, the template string
// literal handed to (*template.Template).Parse, the joinDef{Field: os.Args[i]}
// mapping and the required argument count.
func loadJoinGen(path string) (*joinGen, error) {
	fset := token.NewFileSet()
	f, err := parser.ParseFile(fset, path, nil, parser.SkipObjectResolution)
	if err != nil {
		return nil, err
	}
	g := &joinGen{fields: map[string]int{}}
	var lits []string
	ast.Inspect(f, func(n ast.Node) bool {
		switch x := n.(type) {
		case *ast.CallExpr:
			if sel, ok := x.Fun.(*ast.SelectorExpr); ok && sel.Sel.Name == "Parse" && len(x.Args) == 1 {
				if bl, ok := x.Args[0].(*ast.BasicLit); ok && bl.Kind == token.STRING {
					if s, err := strconv.Unquote(bl.Value); err == nil {
						lits = append(lits, s)
					}
				}
			}
		case *ast.CompositeLit:
			if id, ok := x.Type.(*ast.Ident); ok && id.Name == "joinDef" {
				for _, el := range x.Elts {
					kv, ok := el.(*ast.KeyValueExpr)
					if !ok {
						continue
					}
					k, ok := kv.Key.(*ast.Ident)
					if !ok {
						continue
					}
					if i, ok := osArgsIndex(kv.Value); ok {
						g.fields[k.Name] = i
					}
				}
			}
		case *ast.BinaryExpr:
			// len(os.Args) != N
			if x.Op == token.NEQ {
				if c, ok := x.X.(*ast.CallExpr); ok && len(c.Args) == 1 {
					if id, ok := c.Fun.(*ast.Ident); ok && id.Name == "len" && isOsArgs(c.Args[0]) {
						if bl, ok := x.Y.(*ast.BasicLit); ok && bl.Kind == token.INT {
							g.nargs, _ = strconv.Atoi(bl.Value)
						}
					}
				}
			}
		}
		return true
	})
	if len(lits) != 1 {
		return nil, fmt.Errorf("%s: expected exactly one template string literal passed to Parse, found %d", path, len(lits))
	}
	if len(g.fields) == 0 {
		return nil, fmt.Errorf("%s: no joinDef{Field: os.Args[i]} mapping found", path)
	}
	g.tmplText = lits[0]
	g.tmpl, err = template.New("join").Option("missingkey=error").Parse(g.tmplText)
	if err != nil {
		return nil, fmt.Errorf("%s: template does not parse: %v", path, err)
	}
	return g, nil
}

func isOsArgs(e ast.Expr) bool {
	sel, ok := e.(*ast.SelectorExpr)
	if !ok || sel.Sel.Name != "Args" {
		return false
	}
	id, ok := sel.X.(*ast.Ident)
	return ok && id.Name == "os"
}

func osArgsIndex(e ast.Expr) (int, bool) {
	ix, ok := e.(*ast.IndexExpr)
	if !ok || !isOsArgs(ix.X) {
		return 0, false
	}
	bl, ok := ix.Index.(*ast.BasicLit)
	if !ok || bl.Kind != token.INT {
		return 0, false
	}
	i, err := strconv.Atoi(bl.Value)
	return i, err == nil
}

func (g *joinGen) execute(args []string) ([]byte, error) {
	if g.nargs != 0 && len(args)+1 != g.nargs {
		return nil, fmt.Errorf("generator wants %d arguments, Makefile passes %d (%v)", g.nargs-1, len(args), args)
	}
	data := map[string]string{}
	for f, i := range g.fields {
		if i < 1 || i > len(args) {
			return nil, fmt.Errorf("field %s reads os.Args[%d], Makefile passes only %d arguments", f, i, len(args))
		}
		data[f] = args[i-1]
	}
	var buf bytes.Buffer
	if err := g.tmpl.Execute(&buf, data); err != nil {
		return nil, err
	}
	return buf.Bytes(), nil
}

// ---------------------------------------------------------------------------

func parseGoFile(path string) (*ast.File, *token.FileSet, error) {
	fset := token.NewFileSet()
	f, err := parser.ParseFile(fset, path, nil, parser.SkipObjectResolution)
	return f, fset, err
}

func mergeBindings(ms ...map[string]string) map[string]string {
	out := map[string]string{}
	for _, m := range ms {
		for k, v := range m {
			out[k] = v
		}
	}
	return out
}

func fixImportBindings(dir string) map[string]string {
	f, _, err := parseGoFile(filepath.Join(dir, "fiximport.go"))
	if err != nil {
		return map[string]string{}
	}
	return importBindings(f)
}

func globRel(pattern string) []string {
	m, _ := filepath.Glob(filepath.Join(RepoDir, pattern))
	var out []string
	for _, p := range m {
		r, err := filepath.Rel(RepoDir, p)
		if err == nil {
			out = append(out, r)
		}
	}
	return out
}

// Templates decides "generated == template instantiated" for every typed
// package and every join the Makefile generates.
func Templates() *runner.ExtraResult {
	res := &runner.ExtraResult{Name: "c20-templates", Coverage: map[string]interface{}{}}
	complete := true
	viol := func(sig, msg string) {
		res.Violations = append(res.Violations, explore.Violation{
			Scenario:  scenarioTemplates,
			Messages:  []string{msg},
			Signature: scenarioTemplates + " :: " + sig,
		})
	}

	types, joins, problems, err := parseMakefile(filepath.Join(RepoDir, "Makefile"))
	if err != nil {
		viol("Makefile unreadable", fmt.Sprintf("cannot read the generator parameters: %v", err))
		res.Note = "Makefile unreadable; nothing enumerated"
		return res
	}
	for _, p := range problems {
		complete = false
		viol("Makefile generator line not understood", p)
	}

	var crossDisagree, splicedTotal, substTotal int
	var cmpDecl, cmpImport, cmpCross int64
	instances := []map[string]interface{}{}

	// ---- typed packages
	tmplCache := map[string][]byte{}
	coveredTypes := map[string]bool{}
	for _, t := range types {
		coveredTypes[t.Out] = true
		res.Distinct++
		id := t.Out
		src, ok := tmplCache[t.In]
		if !ok {
			src, err = os.ReadFile(filepath.Join(RepoDir, t.In))
			if err != nil {
				complete = false
				viol(t.In+" unreadable", fmt.Sprintf("template %s: %v", t.In, err))
				continue
			}
			tmplCache[t.In] = src
		}
		want, fw, tmplImports, in, err := instantiateAST(src, t.In, t)
		if err != nil {
			complete = false
			viol(t.In+" does not parse", fmt.Sprintf("template %s: %v", t.In, err))
			continue
		}
		for _, p := range in.problems {
			viol(id+" template cannot be instantiated: "+p, fmt.Sprintf("%s (%s=%s): %s", id, t.Generic, t.Specific, p))
		}
		substTotal += in.substitutions
		splicedTotal += in.spliced
		if filepath.Base(filepath.Dir(t.Out)) != t.Pkg {
			viol(id+" -pkg does not match its directory", fmt.Sprintf("Makefile:%d generates %s with -pkg=%s", t.Line, t.Out, t.Pkg))
		}
		cmpDecl++

		got, fg, err := parseGoFile(filepath.Join(RepoDir, t.Out))
		if err != nil {
			viol(id+" unreadable or does not parse", fmt.Sprintf("%s: %v", id, err))
			continue
		}
		eq, n, mm := compareFiles(want, got, fw, fg)
		cmpDecl += n
		allowed := mergeBindings(tmplImports, fixImportBindings(filepath.Join(RepoDir, filepath.Dir(t.Out))))
		ni, mi := compareImports(got, allowed)
		cmpImport += ni
		mm = append(mm, mi...)
		for _, m := range mm {
			viol(fmt.Sprintf("%s %s %s", id, m.key, m.what), fmt.Sprintf("%s (%s=%s, Makefile:%d): %s", id, t.Generic, t.Specific, t.Line, m.msg))
		}

		// cross-check of the oracle itself: genny's textual algorithm must give the same tree
		cross := "agree"
		fx := token.NewFileSet()
		if gf, err := parser.ParseFile(fx, t.In+"<genny>", gennyText(src, t), parser.SkipObjectResolution); err != nil {
			crossDisagree++
			cross = "genny text does not parse"
			viol(id+" template instantiation ambiguous: genny's textual substitution does not parse", fmt.Sprintf("%s: genny's line based substitution of %s=%s yields unparsable text: %v", id, t.Generic, t.Specific, err))
		} else {
			_, n, cm := compareFiles(want, gf, fw, fx)
			cmpCross += n
			for _, m := range cm {
				crossDisagree++
				cross = "disagree"
				viol(fmt.Sprintf("%s template instantiation ambiguous: AST and genny text substitution disagree on %s", id, m.key),
					fmt.Sprintf("%s: instantiating the template on the syntax tree and with genny's textual algorithm gives different results (second = genny): %s", id, m.msg))
			}
		}
		instances = append(instances, map[string]interface{}{"file": id, "kind": "typed", "param": t.Generic + "=" + t.Specific, "declarations_equal": eq, "declarations": len(nonImportDecls(want)), "mismatches": len(mm), "imports_checked": ni, "ast_vs_genny_text": cross})
		if len(mm) == 0 && len(res.Samples) < 3 {
			res.Samples = append(res.Samples, fmt.Sprintf("%s: %d declarations equal to %s[%s=%s], %d import bindings consistent", id, eq, t.In, t.Generic, t.Specific, ni))
		}
	}
	// every generated.go on disk must come from a Makefile line
	for _, p := range globRel("types/*/generated.go") {
		cmpDecl++
		if !coveredTypes[p] {
			viol(p+" has no generator line in the Makefile", fmt.Sprintf("%s exists but no genny line of target generate-types produces it", p))
		}
	}

	// ---- joins
	coveredJoins := map[string]bool{}
	var jg *joinGen
	if len(joins) > 0 {
		jg, err = loadJoinGen(filepath.Join(RepoDir, "join/gen/main.go"))
		if err != nil {
			complete = false
			viol("join/gen/main.go not understood", err.Error())
		}
	}
	joinFix := fixImportBindings(filepath.Join(RepoDir, "join"))
	sampledJoins := 0
	for _, j := range joins {
		coveredJoins[j.Out] = true
		res.Distinct++
		id := j.Out
		if jg == nil {
			continue
		}
		text, err := jg.execute(j.Args)
		if err != nil {
			viol(id+" generator fails on the Makefile arguments", fmt.Sprintf("%s (Makefile:%d): %v", id, j.Line, err))
			continue
		}
		fw := token.NewFileSet()
		want, err := parser.ParseFile(fw, id+"<template>", text, parser.SkipObjectResolution)
		if err != nil {
			viol(id+" template output does not parse", fmt.Sprintf("%s (Makefile:%d, args %v): %v", id, j.Line, j.Args, err))
			continue
		}
		got, fg, err := parseGoFile(filepath.Join(RepoDir, j.Out))
		if err != nil {
			viol(id+" unreadable or does not parse", fmt.Sprintf("%s: %v", id, err))
			continue
		}
		eq, n, mm := compareFiles(want, got, fw, fg)
		cmpDecl += n
		ni, mi := compareImports(got, mergeBindings(importBindings(want), joinFix))
		cmpImport += ni
		mm = append(mm, mi...)
		for _, m := range mm {
			viol(fmt.Sprintf("%s %s %s", id, m.key, m.what), fmt.Sprintf("%s (args %v, Makefile:%d): %s", id, j.Args, j.Line, m.msg))
		}
		instances = append(instances, map[string]interface{}{"file": id, "kind": "join", "param": strings.Join(j.Args, " "), "declarations_equal": eq, "declarations": len(nonImportDecls(want)), "mismatches": len(mm), "imports_checked": ni})
		if len(mm) == 0 && sampledJoins < 2 {
			sampledJoins++
			res.Samples = append(res.Samples, fmt.Sprintf("%s: %d declarations equal to join/gen/main.go template executed with %v, %d import bindings consistent", id, eq, j.Args, ni))
		}
	}
	for _, p := range globRel("join/generated_*.go") {
		cmpDecl++
		if !coveredJoins[p] {
			viol(p+" has no generator line in the Makefile", fmt.Sprintf("%s exists but no line of target generate-joins produces it", p))
		}
	}

	res.Evaluations = cmpDecl + cmpImport + cmpCross
	res.Complete = complete
	res.Coverage["typed_instances"] = len(types)
	res.Coverage["join_instances"] = len(joins)
	res.Coverage["declaration_comparisons"] = cmpDecl
	res.Coverage["import_binding_comparisons"] = cmpImport
	res.Coverage["oracle_crosscheck_comparisons"] = cmpCross
	res.Coverage["oracle_crosscheck_disagreements"] = crossDisagree
	res.Coverage["generic_type_substitutions"] = substTotal
	res.Coverage["identifiers_with_spliced_type_name"] = splicedTotal
	res.Coverage["instances"] = instances
	if jg != nil {
		fm := map[string]int{}
		for k, v := range jg.fields {
			fm[k] = v
		}
		res.Coverage["join_generator"] = map[string]interface{}{"template_bytes": len(jg.tmplText), "field_to_os_args_index": fm, "required_len_os_args": jg.nargs}
	}
	res.Note = fmt.Sprintf("parameter tuples parsed from %s/Makefile at run time (%d typed, %d joins); template instances are built by syntax-tree substitution and cross-checked against a transcription of genny's textual algorithm; comparison is per top-level declaration, structural, ignoring positions, comments, formatting and import sets (import name->path bindings are checked against template + fiximport.go)", RepoDir, len(types), len(joins))
	if len(types) != 12 || len(joins) != 8 {
		res.Note += fmt.Sprintf("; NOTE: C20 speaks of 12 typed packages and 8 joins, the Makefile lists %d and %d", len(types), len(joins))
	}
	return res
}
