package main

import (
	"verif/harness/c13"
	"verif/runner"
)

func main() { runner.Main(c13.Property()) }
