// Package ctl is the whole-controller harness: the real Builder.Create()
// against the scripted API server (fakeapi), a tree of subscribers below it,
// a server history, scripted list/watch faults, an optional closer, and an
// observer that looks at everything once the system is quiescent at a given
// virtual time.  C03, C14, C11 and C12 are oracles over these observations.
package ctl

import (
	"context"
	"fmt"
	"sort"
	"strings"
	"time"

	logutil "github.com/boz/go-logutil"
	"github.com/boz/kcache"
	"github.com/boz/kcache/filter"
	metav1 "k8s.io/apimachinery/pkg/apis/meta/v1"

	"verif/explore"
	"verif/harness/fakeapi"
	"verif/harness/hx"
	"verif/runner"
	"verif/vs"
	"verif/vs/vrand"
)

type Mut struct {
	Op     string // set | del
	Name   string
	Labels string
	Delay  time.Duration // virtual time to wait before this mutation
}

func (m Mut) String() string {
	s := m.Op + ":" + m.Name
	if m.Labels != "" {
		s += "{" + m.Labels + "}"
	}
	if m.Delay > 0 {
		s += fmt.Sprintf("+%ds", m.Delay/time.Second)
	}
	return s
}

// CloseSpec: who shuts what down and when.
//
//	Kind: "" nothing | close (Controller.Close) | ctx (context cancel) | close2 (two concurrent Close) |
//	      closetwice (Close twice in a row) | node:<path> (Close of that node of the tree)
//	AfterMut: the closer acts right after this many mutations have been issued (-1: at virtual time At)
type CloseSpec struct {
	Kind     string
	AfterMut int
	At       time.Duration
}

type Cfg struct {
	Name   string
	Filter int // controller level filter (hx.MkFilter index)
	// SlowOn: the controller's filter takes one (virtual) second to decide about objects of this name with a version
	// above 1 (a slow user predicate): the controller is legitimately busy while watch frames keep arriving
	Defaults      bool   // the controller is made by kcache.NewController (builder defaults: filter Null, period 1 min; Filter and Period must say so)
	SlowLogPrefix string // a library stage made slow: the Debugf line starting with this takes 2 ms (hx.SlowLog)
	SlowOn        string
	SlowFor       time.Duration // how long the slow filter takes for that object (0 = 1s)
	CancelOnFrame int           // the builder's context is cancelled as a watch stream has handed over its n-th frame (1-based)
	CancelOnList  int           // the builder's context is cancelled as the n-th list call returns its (good) answer
	CountAccepts  bool          // the controller filter counts the objects it is asked about (Obs.AcceptsAtReady)
	StartRV       int           // the server's versions start above this (-1: the first object gets resourceVersion 0)
	Period        time.Duration
	Pre           []Mut
	Hist          []Mut
	ListFaults    map[int]fakeapi.ListFault
	WatchFaults   map[int]fakeapi.WatchFault
	DefaultWatch  fakeapi.WatchFault
	Tree          []hx.Spec
	Close         CloseSpec
	ReadAt        time.Duration // the observer looks at the system when it is quiescent at this virtual time
	Bufsiz        int           // > 0: model value of EventBufsiz for this scenario
	MapOrder      bool          // map iteration order is an explorer choice
	APICalls      bool          // issue the public API calls again after shutdown (C12)
	RaceAPI       bool          // a driver issues Subscribe/Clone/Refilter/List concurrently with everything else (C12)
	Mode          string
	Bound         int
}

// Obs is what the observer and the drivers recorded.
type Obs struct {
	CreateErr           error
	Built               bool
	ObserverRan         bool
	CacheAtRead         string
	CacheErr            string
	ServerAtRead        string
	ReadyAtRead         bool
	DoneAtRead          bool
	ErrAtRead           string
	NodeCache           map[string]string
	NodeReady           map[string]bool
	NodeDone            map[string]bool
	Lists               int
	Watches             int
	WatchRVs            []string
	ListRVs             []int
	StaleAtList         []int
	ListTimes           []int64 // virtual start time of every List call
	InflightAtRead      int
	PendingTimersAtRead int
	ServerRV            int
	MaxFlight           int
	ReadyList           string // Cache().List() read by an observer the moment Ready() closed
	ReadyLists          int    // completed List calls at that moment
	ReadySeen           bool
	AcceptsAtReady      int // CountAccepts: objects the cache had asked the controller filter about when Ready() closed
	CloseReturned       int
	ClosesIssued        int
	DoneAfterClose      bool
	ErrAfterDone        string
	ErrNil              bool
	Finished            bool
	Clock               int64
	PostAPI             []string // results of API calls issued after Done
	RaceAPI             []string // results of API calls racing with shutdown
	RaceDone            bool
	LeafClosed          map[string]bool // leaf path -> its Events() channel was closed (consumer ran to the end)
	LeafEvents          map[string][]string
	ProbeDelivered      map[string]bool
	HistDone            bool
	CloserStarted       bool
	CloserStartedAtRead bool // the scripted closer had acted when the observer looked (under virtual time it may be late)
	HistDoneAtRead      bool // the whole server history had been applied when the observer looked
}

type Inst struct {
	Converged    int64 // oracle bookkeeping: the convergence premise held in this execution
	C            Cfg
	Srv          *fakeapi.Server
	Ctrl         kcache.Controller
	Nodes        []*hx.Node
	O            Obs
	cancel       context.CancelFunc
	serverAtRead []metav1.Object
	accepts      int
	// Reached: reachability obligations (runner.Sc.Exists) this execution fulfils; set by the oracle
	Reached map[string]bool
}

func (in *Inst) apply(m Mut) {
	if m.Op == "set" {
		in.Srv.Set("ns", m.Name, hx.ParseLabels(m.Labels))
	} else {
		in.Srv.Delete("ns", m.Name)
	}
}

func (in *Inst) doClose(kind string) {
	in.O.CloserStarted = true
	switch {
	case kind == "close":
		in.O.ClosesIssued++
		in.Ctrl.Close()
		in.O.CloseReturned++
	case kind == "ctx":
		in.cancel()
	case kind == "close2":
		fin := make(chan bool, 2)
		for i := 0; i < 2; i++ {
			in.O.ClosesIssued++
			go func() {
				in.Ctrl.Close()
				fin <- true
			}()
		}
		for i := 0; i < 2; i++ {
			<-fin
			in.O.CloseReturned++
		}
	case kind == "closetwice":
		in.O.ClosesIssued += 2
		in.Ctrl.Close()
		in.O.CloseReturned++
		in.Ctrl.Close()
		in.O.CloseReturned++
	case strings.HasPrefix(kind, "node:"):
		path := strings.TrimPrefix(kind, "node:")
		hx.Walk(in.Nodes, func(n *hx.Node) {
			if n.Path == path {
				n.Close()
			}
		})
	}
}

func (in *Inst) Run() {
	c := in.C
	vrand.Floats = []float64{0.5}
	hx.Drops = 0
	in.Srv = fakeapi.New()
	in.Srv.SetStartRV(c.StartRV)
	in.Srv.ListFaults = c.ListFaults
	in.Srv.WatchFaults = c.WatchFaults
	in.Srv.DefaultWatch = c.DefaultWatch
	in.O.NodeCache = map[string]string{}
	in.O.NodeReady = map[string]bool{}
	in.O.NodeDone = map[string]bool{}
	in.O.ProbeDelivered = map[string]bool{}
	in.O.LeafClosed = map[string]bool{}
	in.O.LeafEvents = map[string][]string{}
	for _, m := range c.Pre {
		in.apply(m)
	}
	ctx, cancel := context.WithCancel(logutil.NewContext(context.Background(), hx.Log))
	in.cancel = cancel
	if c.CancelOnFrame > 0 {
		in.Srv.OnWatchFrame = func(idx int) {
			if idx == c.CancelOnFrame-1 {
				cancel()
			}
		}
	}
	if c.CancelOnList > 0 {
		in.Srv.OnListReturn = func(n int) {
			if n == c.CancelOnList {
				cancel()
			}
		}
	}
	var log logutil.Log = hx.Log
	if c.SlowLogPrefix != "" {
		log = hx.SlowLog{Prefix: c.SlowLogPrefix, D: 2 * time.Millisecond}
	}
	var ctrl kcache.Controller
	var err error
	if c.Defaults {
		// the convenience constructor: no filter, the default refresh period (one minute)
		ctrl, err = kcache.NewController(ctx, log, in.Srv)
	} else {
		b := kcache.NewBuilder().Context(ctx).Log(log).Filter(in.controllerFilter()).Client(in.Srv)
		b.Lister().RefreshPeriod(c.Period)
		ctrl, err = b.Create()
	}
	in.O.CreateErr = err
	if err != nil {
		return
	}
	in.Ctrl = ctrl
	in.Nodes = hx.Build(ctrl, c.Tree, nil, "", func(n *hx.Node) kcache.Handler {
		return kcache.BuildHandler().
			OnInitialize(func(l []metav1.Object) { n.Calls = append(n.Calls, "init:"+hx.ListString(l)) }).
			OnCreate(func(o metav1.Object) { n.Calls = append(n.Calls, "create:"+hx.ObjString(o)) }).
			OnUpdate(func(o metav1.Object) { n.Calls = append(n.Calls, "update:"+hx.ObjString(o)) }).
			OnDelete(func(o metav1.Object) { n.Calls = append(n.Calls, "delete:"+hx.ObjString(o)) }).Create()
	})
	in.O.Built = true
	hx.Walk(in.Nodes, func(n *hx.Node) {
		if n.Err == nil && n.IsLeaf() {
			n := n
			go n.Consume(true)
		}
	})
	// observer of readiness: reads the cache the moment Ready() closes
	go func() {
		<-ctrl.Ready()
		in.O.AcceptsAtReady = in.accepts
		l, err := ctrl.Cache().List()
		in.O.ReadySeen = true
		if err != nil {
			in.O.ReadyList = "error:" + err.Error()
		} else {
			in.O.ReadyList = hx.ListString(l)
		}
	}()
	// server history
	go func() {
		for i, m := range c.Hist {
			if m.Delay > 0 {
				time.Sleep(m.Delay)
			}
			in.apply(m)
			if c.Close.Kind != "" && c.Close.AfterMut == i+1 {
				in.doClose(c.Close.Kind)
			}
		}
		in.O.HistDone = true
	}()
	if c.Close.Kind != "" && c.Close.AfterMut == 0 {
		go in.doClose(c.Close.Kind)
	}
	if c.Close.Kind != "" && c.Close.AfterMut < 0 {
		go func() {
			time.Sleep(c.Close.At)
			in.doClose(c.Close.Kind)
		}()
	}
	var raced []interface{ Done() <-chan struct{} }
	if c.RaceAPI {
		go func() {
			rec := func(name string, err error) {
				s := name + ":ok"
				if err != nil {
					s = name + ":" + err.Error()
				}
				in.O.RaceAPI = append(in.O.RaceAPI, s)
			}
			sub, err := ctrl.Subscribe()
			rec("Subscribe", err)
			if err == nil {
				raced = append(raced, sub)
			}
			fc, err := ctrl.CloneWithFilter(hx.MkFilter(2))
			rec("CloneWithFilter", err)
			if err == nil {
				raced = append(raced, fc)
				rec("Refilter", fc.Refilter(hx.MkFilter(3)))
				s2, err := fc.Subscribe()
				rec("Clone.Subscribe", err)
				if err == nil {
					raced = append(raced, s2)
				}
			}
			_, err = ctrl.Cache().List()
			rec("List", err)
			ds, err := ctrl.SubscribeForFilter()
			rec("SubscribeForFilter", err)
			if err == nil {
				raced = append(raced, ds)
				rec("Refilter2", ds.Refilter(hx.MkFilter(2)))
			}
			in.O.RaceDone = true
		}()
	}
	// the observer
	in.O.PendingTimersAtRead = vs.SleepIdleArmed(c.ReadAt)
	in.O.ObserverRan = true
	in.O.HistDoneAtRead = in.O.HistDone
	in.O.CloserStartedAtRead = in.O.CloserStarted
	in.O.Clock = vs.ClockHere()
	if l, err := ctrl.Cache().List(); err != nil {
		in.O.CacheErr = err.Error()
	} else {
		in.O.CacheAtRead = hx.ListString(l)
	}
	in.serverAtRead = in.Srv.Objects()
	in.O.ServerAtRead = hx.ListString(in.serverAtRead)
	in.O.ReadyAtRead = hx.IsClosed(ctrl.Ready())
	in.O.DoneAtRead = hx.IsClosed(ctrl.Done())
	if in.O.DoneAtRead {
		if e := ctrl.Error(); e != nil {
			in.O.ErrAtRead = e.Error()
		} else {
			in.O.ErrNil = true
		}
	}
	hx.Walk(in.Nodes, func(n *hx.Node) {
		if n.Err != nil {
			in.O.NodeCache[n.Path] = "builderr:" + n.Err.Error()
			return
		}
		if cr := n.Cache(); cr != nil {
			if l, err := cr.List(); err != nil {
				in.O.NodeCache[n.Path] = "error:" + err.Error()
			} else {
				in.O.NodeCache[n.Path] = hx.ListString(l)
			}
		}
		in.O.NodeReady[n.Path] = hx.IsClosed(n.Ready())
		in.O.NodeDone[n.Path] = hx.IsClosed(n.Done())
		if n.IsLeaf() {
			in.O.LeafClosed[n.Path] = n.EventsClosed
			in.O.LeafEvents[n.Path] = append([]string{}, n.Received...)
		}
	})
	vs.Atomic(in.Srv, func() {
		in.O.Lists, in.O.Watches, in.O.MaxFlight = in.Srv.Lists, in.Srv.Watches, in.Srv.MaxFlight
		in.O.WatchRVs = append([]string{}, in.Srv.WatchRVs...)
		in.O.ListRVs = append([]int{}, in.Srv.ListRVs...)
		in.O.StaleAtList = append([]int{}, in.Srv.StaleAtList...)
		in.O.ListTimes = append([]int64{}, in.Srv.ListTimes...)
		in.O.InflightAtRead = in.Srv.Inflight
		in.O.ServerRV = in.Srv.Version0()
	})
	// end of the run: shut the controller down (unless it is done already) and wait
	if !in.O.DoneAtRead {
		in.O.ClosesIssued++
		ctrl.Close()
		in.O.CloseReturned++
	}
	<-ctrl.Done()
	in.O.DoneAfterClose = true
	// an object returned by a call racing with shutdown is itself shut down
	for _, x := range raced {
		<-x.Done()
	}
	if e := ctrl.Error(); e != nil {
		in.O.ErrAfterDone = e.Error()
	}
	if c.APICalls {
		in.postAPI()
	}
	// linger: timers the library left armed fire now (a callback that then blocks forever is a leaked goroutine)
	vs.SleepIdle(2 * time.Second)
	in.O.Finished = true
}

// postAPI: every public call after Done() must return (ErrNotRunning or a result), never block.
func (in *Inst) postAPI() {
	rec := func(name string, err error) {
		s := name + ":ok"
		if err != nil {
			s = name + ":" + err.Error()
		}
		in.O.PostAPI = append(in.O.PostAPI, s)
	}
	c := in.Ctrl
	sub, err := c.Subscribe()
	rec("Subscribe", err)
	if err == nil {
		<-sub.Done()
	}
	fs, err := c.SubscribeWithFilter(hx.MkFilter(2))
	rec("SubscribeWithFilter", err)
	if err == nil {
		<-fs.Done()
	}
	ds, err := c.SubscribeForFilter()
	rec("SubscribeForFilter", err)
	if err == nil {
		<-ds.Done()
	}
	cl, err := c.Clone()
	rec("Clone", err)
	if err == nil {
		<-cl.Done()
	}
	fc, err := c.CloneWithFilter(hx.MkFilter(2))
	rec("CloneWithFilter", err)
	if err == nil {
		<-fc.Done()
	}
	dc, err := c.CloneForFilter()
	rec("CloneForFilter", err)
	if err == nil {
		<-dc.Done()
	}
	_, err = c.Cache().List()
	rec("List", err)
	_, err = c.Cache().Get("ns", "a")
	rec("Get", err)
	c.Close()
	rec("Close", nil)
	hx.Walk(in.Nodes, func(n *hx.Node) {
		if n.Err == nil && (n.FSub != nil || n.FCtrl != nil) {
			rec("Refilter("+n.Path+")", n.Refilter(hx.MkFilter(0)))
		}
	})
}

// Reach records that this execution fulfils a reachability obligation.
func (in *Inst) Reach(what string) {
	if in.Reached == nil {
		in.Reached = map[string]bool{}
	}
	in.Reached[what] = true
}

func (in *Inst) controllerFilter() filter.Filter {
	f := hx.MkFilter(in.C.Filter)
	if in.C.CountAccepts {
		// evidence that a list or event reached the cache: the cache asks the filter about every object it is given
		return filter.FN(func(o metav1.Object) bool {
			in.accepts++
			return f.Accept(o)
		})
	}
	if in.C.SlowOn == "" {
		return f
	}
	name := in.C.SlowOn
	return filter.FN(func(o metav1.Object) bool {
		if o.GetName() == name && hx.Ver(o) > 1 {
			d := in.C.SlowFor
			if d == 0 {
				d = time.Second
			}
			time.Sleep(d)
		}
		return f.Accept(o)
	})
}

// Accepted renders the reference content of the controller cache for a server content.
func Accepted(filter int, objs []metav1.Object) string {
	var out []metav1.Object
	for _, o := range objs {
		if hx.RefAccept(filter, o) {
			out = append(out, o)
		}
	}
	return hx.ListString(out)
}

func (in *Inst) Desc() string {
	c := in.C
	var parts []string
	parts = append(parts, "filter="+hx.FilterNames[c.Filter], fmt.Sprintf("period=%ds", c.Period/time.Second))
	if len(c.Pre) > 0 {
		parts = append(parts, fmt.Sprintf("pre=%v", c.Pre))
	}
	parts = append(parts, fmt.Sprintf("history=%v", c.Hist))
	if len(c.ListFaults) > 0 {
		var ks []int
		for k := range c.ListFaults {
			ks = append(ks, k)
		}
		sort.Ints(ks)
		var ss []string
		for _, k := range ks {
			ss = append(ss, fmt.Sprintf("list#%d:%s+%ds", k, c.ListFaults[k].Kind, c.ListFaults[k].Latency/time.Second))
		}
		parts = append(parts, "listfaults=["+strings.Join(ss, " ")+"]")
	}
	if len(c.WatchFaults) > 0 || c.DefaultWatch.Kind != "" {
		var ks []int
		for k := range c.WatchFaults {
			ks = append(ks, k)
		}
		sort.Ints(ks)
		var ss []string
		for _, k := range ks {
			ss = append(ss, fmt.Sprintf("watch#%d:%s@%d", k, c.WatchFaults[k].Kind, c.WatchFaults[k].After))
		}
		if c.DefaultWatch.Kind != "" {
			ss = append(ss, "others:"+c.DefaultWatch.Kind)
		}
		parts = append(parts, "watchfaults=["+strings.Join(ss, " ")+"]")
	}
	if c.Close.Kind != "" {
		parts = append(parts, fmt.Sprintf("close=%s(after %d mutations / at %ds)", c.Close.Kind, c.Close.AfterMut, c.Close.At/time.Second))
	}
	return strings.Join(parts, " ")
}

func (in *Inst) Outcome() string {
	o := in.O
	return fmt.Sprintf("cache=%s server=%s ready=%v done=%v err=%q lists=%d watches=%d rvs=%v nodes=%v fin=%v", o.CacheAtRead, o.ServerAtRead, o.ReadyAtRead, o.DoneAtRead, o.ErrAtRead, o.Lists, o.Watches, o.WatchRVs, o.NodeCache, o.Finished)
}

// Scenario wraps a configuration and an oracle.
func Scenario(prop string, c Cfg, oracle func(in *Inst, r *vs.Result) []string) runner.Sc {
	name := fmt.Sprintf("%s/%s/%s%d", strings.ToLower(prop), c.Name, c.Mode, c.Bound)
	return runner.Sc{
		Scenario: explore.Scenario{
			Name: name, Mode: c.Mode, Bound: c.Bound,
			Cfg: vs.Config{Timers: vs.TimersLazy, MaxSteps: 200000, Bufsiz: c.Bufsiz, MapOrder: c.MapOrder},
			New: func() explore.Instance {
				in := &Inst{C: c}
				return explore.Instance{Run: in.Run, Check: func(r *vs.Result) []string { return oracle(in, r) }, Outcome: in.Outcome,
					Counters: func() map[string]int64 {
						d := int64(0)
						if hx.Drops > 0 {
							d = 1
						}
						m := map[string]int64{"executions_where_convergence_premise_held": in.Converged, "executions_with_overflow_drops": d}
						for what := range in.Reached {
							m[runner.ReachKey(name, what)] = 1
						}
						return m
					}}
			},
		},
		Split: true,
	}
}

// LibBlocked lists the goroutines started by the library (names carry the "lib:" prefix given by the
// transformer) that are still pending.
func LibBlocked(r *vs.Result) []string {
	var lib []vs.BlockedG
	for _, b := range r.Blocked {
		if strings.HasPrefix(b.Name, "lib:") {
			lib = append(lib, b)
		}
	}
	return BlockedNames(&vs.Result{Blocked: lib})
}

func BlockedNames(r *vs.Result) []string {
	m := map[string]int{}
	for _, b := range r.Blocked {
		m[b.Name]++
	}
	var out []string
	for k, v := range m {
		out = append(out, fmt.Sprintf("%s x%d", k, v))
	}
	sort.Strings(out)
	return out
}

// ExpectedNodeCache renders what the cache of the node at path should hold at observation time: the server
// content filtered by the controller filter and by every filter on the path ("" if the path has a deferred node).
func (in *Inst) ExpectedNodeCache(path string) string {
	fs := []int{in.C.Filter}
	var find func(ns []*hx.Node) *hx.Node
	find = func(ns []*hx.Node) *hx.Node {
		for _, n := range ns {
			if n.Path == path {
				return n
			}
			if x := find(n.Children); x != nil {
				return x
			}
		}
		return nil
	}
	n := find(in.Nodes)
	if n == nil {
		return ""
	}
	for x := n; x != nil; x = x.Parent {
		switch x.Spec.Kind {
		case "fsub", "fclone":
			fs = append(fs, x.Spec.Filter)
		case "dsub", "dclone":
			return ""
		}
	}
	var out []metav1.Object
	for _, o := range in.serverAtRead {
		ok := true
		for _, f := range fs {
			if !hx.RefAccept(f, o) {
				ok = false
			}
		}
		if ok {
			out = append(out, o)
		}
	}
	return hx.ListString(out)
}
