package filters

import (
	"fmt"
	"sort"
	"sync/atomic"
	"time"

	"github.com/boz/kcache/filter"
	metav1 "k8s.io/apimachinery/pkg/apis/meta/v1"

	"verif/explore"
	"verif/runner"
)

// C17 — filter equality is sound.
func C17() runner.Property {
	return runner.Property{
		ID:    "C17",
		Level: "exploration",
		Rule: "exhaustive enumeration: for every ordered pair (t1,t2) of the finite term universe, FiltersEqual(t1,t2) or t1.Equals(t2) " +
			"=> identical acceptance bit-vectors over an object universe that (machine-checked) separates all inequivalent atom arguments; " +
			"every FN-free term rebuilt by independent constructor calls equals the first build (both directions); " +
			"workload / ingress filters built from every permutation of their source list are equal",
		Assumptions: []string{
			"depth: atoms have depth 1, a combinator 1 + max depth of its children (empty And/Or: 2); combinator arity 0..2",
			"terms containing FN are not 'comparable filters': for them equality may be false, but if reported it must be sound",
			"workloads handed to one PodsFilter call have pairwise distinct namespace/name (two versions of the same object in one call are not enumerated)",
			"source objects are well-formed (LabelSelector operators valid, In/NotIn with at least one value)",
		},
		Scenarios: func(string) []runner.Sc { return nil },
		Extra:     c17Extra,
	}
}

func c17Objects() []metav1.Object {
	nss, names := []string{"a", "b", "c"}, []string{"x", "y", "z"}
	lm3, lm2 := labelMaps([]string{"1", "2", "3"}), labelMapsE([]string{"1", "2"})
	few := []map[string]string{nil, {K1: "1"}, {K2: "2"}, {K1: "2", K2: "1"}}
	var out []metav1.Object
	for _, ns := range nss {
		for _, n := range names {
			for _, l := range lm3 {
				for _, node := range []string{"", "n1", "n2"} {
					out = append(out, mkPod(ns, n, l, node))
				}
			}
			for _, l := range lm2 {
				out = append(out, mkSvc(ns, n, l, nil))
				for _, s := range lm2 {
					out = append(out, mkSvc(ns, n, l, s))
				}
			}
			for _, l := range few {
				out = append(out, mkSecret(ns, n, l))
			}
		}
	}
	for _, own := range [][2]string{{"a", "x"}, {"b", "y"}, {"c", "z"}} {
		for _, l := range few[:2] {
			for _, k := range []string{"Pod", "Service", "Node", "pod"} { // "pod": kinds are compared as written
				for _, ns := range nss {
					for _, n := range names {
						out = append(out, mkEvent(own[0], own[1], l, k, ns, n))
					}
				}
			}
		}
	}
	return out
}

func permutations(ix []int) [][]int {
	if len(ix) <= 1 {
		return [][]int{append([]int(nil), ix...)}
	}
	var out [][]int
	for i := range ix {
		rest := append(append([]int(nil), ix[:i]...), ix[i+1:]...)
		for _, p := range permutations(rest) {
			out = append(out, append([]int{ix[i]}, p...))
		}
	}
	return out
}

func subsets(n, minSize int) [][]int {
	var out [][]int
	for m := 0; m < 1<<uint(n); m++ {
		var s []int
		for i := 0; i < n; i++ {
			if m&(1<<uint(i)) != 0 {
				s = append(s, i)
			}
		}
		if len(s) >= minSize {
			out = append(out, s)
		}
	}
	sort.Slice(out, func(i, j int) bool {
		if len(out[i]) != len(out[j]) {
			return len(out[i]) < len(out[j])
		}
		return fmt.Sprint(out[i]) < fmt.Sprint(out[j])
	})
	return out
}

func c17Extra(tier string, seed int64) *runner.ExtraResult {
	start := time.Now()
	thorough := tier == "thorough"
	budget := 40 * time.Second
	if thorough {
		budget = 540 * time.Second
	}
	deadline := start.Add(budget)
	res := &runner.ExtraResult{Name: "c17 equality soundness: all ordered term pairs", Coverage: map[string]interface{}{}}
	cov := res.Coverage

	atoms := append(coreAtoms(), typedAtoms()...)
	if d := dedupe(atoms); len(d) != len(atoms) {
		res.Note = "ENGINE: atom names are not unique"
		return res
	}
	objs := c17Objects()
	msg, npairs := checkDistinguishing(atoms, objs)
	if msg != "" {
		res.Note = "ENGINE: " + msg
		return res
	}
	cov["distinguishing_check_same_constructor_atom_pairs"] = npairs

	// term universe
	// depth 2: arity 0/1 over all atoms; arity 2 over the "large" atom set (thorough) / "medium" set (quick).
	// The arity-2 closure over all 257 atoms would give 133k depth-2 terms, with depth 3 3.5e10 ordered pairs
	// (about 2 CPU-hours of Equals calls): infeasible within the tier budget, hence the documented reduction.
	d2base := atomsUpTo(atoms, 3)
	d3atoms := atomsUpTo(atoms, 0)
	if !thorough {
		d2base = atomsUpTo(atoms, 2)
		d3atoms = d3atoms[:4]
	}
	low := append(append([]*Term(nil), d3atoms...), closure(d3atoms)...)
	terms := append(append([]*Term(nil), atoms...), closure2(atoms, d2base)...)
	terms = dedupe(append(terms, closure(low)...))
	T := len(terms)
	byDepth := map[int]int{}
	byCtor := map[string]int{}
	comparable := 0
	for _, t := range terms {
		byDepth[t.Depth]++
		if !t.HasFN {
			comparable++
		}
	}
	for _, a := range atoms {
		byCtor[a.Ctor]++
	}
	var d3names []string
	for _, a := range d3atoms {
		d3names = append(d3names, a.Name)
	}

	// real filters and their acceptance vectors
	F := make([]filter.Filter, T)
	bv := make([]BV, T)
	parFor(T, func(_, i int) {
		F[i] = terms[i].Build()
		bv[i] = acceptBV(F[i], objs)
	})
	distinctBV := map[string]int{}
	for i := range bv {
		distinctBV[bv[i].key()]++
	}

	// every ordered pair
	type ctr struct{ pairs, eqTrue, eqTrueOther, equalsCalls, disagree, rows int64 }
	cs := make([]ctr, workers())
	var fs foundSet
	var aborted int32
	rot := int(((seed % int64(T)) + int64(T)) % int64(T))
	row := func(c *ctr, i int) {
		j := 0
		defer func() {
			if r := recover(); r != nil {
				ti, tj, rr := terms[i], terms[j], r
				fs.add("c17/panic", "comparing "+ti.Shape()+" with "+tj.Shape()+" panics", int64(i)*int64(T)+int64(j),
					func() string { return fmt.Sprintf("FiltersEqual/Equals(%s, %s) panicked: %v", ti.Name, tj.Name, rr) })
			}
		}()
		fi := F[i]
		ci, isC := fi.(filter.ComparableFilter)
		for j = 0; j < T; j++ {
			eq, eq2 := filter.FiltersEqual(fi, F[j]), false
			if isC {
				eq2 = ci.Equals(F[j])
				c.equalsCalls++
				if eq != eq2 {
					c.disagree++
				}
			}
			c.pairs++
			if !eq && !eq2 {
				continue
			}
			c.eqTrue++
			if i != j {
				c.eqTrueOther++
			}
			if d := bv[i].firstDiff(bv[j]); d >= 0 {
				ti, tj, o, ai := terms[i], terms[j], objs[d], bv[i].get(d)
				fs.add("c17/equal-sound", ti.Shape()+" compares equal to "+tj.Shape()+" but they accept different objects", int64(i)*int64(T)+int64(j),
					func() string {
						return fmt.Sprintf("t1=%s t2=%s FiltersEqual=%v Equals=%v but t1.Accept=%v t2.Accept=%v on %s", ti.Name, tj.Name, eq, eq2, ai, !ai, descObj(o))
					})
			}
		}
		c.rows++
	}
	parFor(T, func(w, k int) {
		if atomic.LoadInt32(&aborted) != 0 {
			return
		}
		if time.Now().After(deadline) {
			atomic.StoreInt32(&aborted, 1)
			return
		}
		row(&cs[w], (k+rot)%T)
	})
	var tot ctr
	for _, c := range cs {
		tot.pairs += c.pairs
		tot.eqTrue += c.eqTrue
		tot.eqTrueOther += c.eqTrueOther
		tot.equalsCalls += c.equalsCalls
		tot.disagree += c.disagree
		tot.rows += c.rows
	}

	// arguments changed by the caller after construction: Labels(m), m mutated to every other map, compared with a filter
	// built from the original contents - whenever they compare equal they must still accept the same objects
	var mutatedPairs int64
	{
		lms := labelMapsE([]string{"1", "2"})
		for i, m := range lms {
			for j, m2 := range lms {
				if i == j || len(m) == 0 {
					continue
				}
				arg := copyMap(m)
				f1 := filter.Labels(arg)
				for k := range arg {
					delete(arg, k)
				}
				for k, v := range m2 {
					arg[k] = v
				}
				f2 := filter.Labels(copyMap(m))
				mutatedPairs++
				if !filter.FiltersEqual(f1, f2) && !filter.FiltersEqual(f2, f1) {
					continue
				}
				b1, b2 := acceptBV(f1, objs), acceptBV(f2, objs)
				if d := b1.firstDiff(b2); d >= 0 {
					mm, mm2, o, a1 := mapStr(m), mapStr(m2), objs[d], b1.get(d)
					fs.add("c17/equal-sound", "Labels built from a map the caller changed afterwards compares equal to a fresh one but accepts differently", int64(T)*int64(T)+int64(i*len(lms)+j),
						func() string {
							return fmt.Sprintf("f1=Labels(m) with m=%s, then the caller set m=%s; f2=Labels%s: FiltersEqual=true but f1.Accept=%v f2.Accept=%v on %s", mm, mm2, mm, a1, !a1, descObj(o))
						})
				}
			}
		}
	}
	cov["label_filters_whose_map_was_mutated_after_construction"] = mutatedPairs

	// reflexivity on independently rebuilt values
	var rebuilt, rebuildChecks int64
	parFor(T, func(_, i int) {
		t := terms[i]
		if t.HasFN {
			return
		}
		g := t.Build()
		ok := filter.FiltersEqual(F[i], g) && filter.FiltersEqual(g, F[i])
		if c, isC := F[i].(filter.ComparableFilter); isC {
			ok = ok && c.Equals(g)
		}
		if c, isC := g.(filter.ComparableFilter); isC {
			ok = ok && c.Equals(F[i])
		} else {
			ok = false
		}
		atomic.AddInt64(&rebuilt, 1)
		atomic.AddInt64(&rebuildChecks, 4)
		if !ok {
			fs.add("c17/rebuild", t.Shape()+" built twice from the same arguments does not compare equal", int64(i),
				func() string { return fmt.Sprintf("two independent builds of %s are not FiltersEqual/Equals", t.Name) })
		}
	})

	// source order independence of the workload filters
	var permChecks int64
	permute := func(what string, n int, build func(ix []int) filter.Filter, name func(ix []int) string) {
		for _, s := range subsets(n, 2) {
			f0 := build(s)
			for _, p := range permutations(s) {
				g := build(p)
				permChecks += 2
				if !filter.FiltersEqual(f0, g) || !filter.FiltersEqual(g, f0) {
					s, p := s, p
					fs.add("c17/permute", what+" depends on the order of its source objects", permChecks,
						func() string { return fmt.Sprintf("%s is not equal to %s", name(s), name(p)) })
				}
			}
		}
	}
	for _, kind := range podKinds {
		// (for this part two more sources: same namespace and selector as w1 / w2 under names that sort around the others)
		kind, ws := kind, c17Workloads(kind)
		ws = append(ws, W{NS: "a", Name: "w21", Sel: ws[0].Sel}, W{NS: "a", Name: "w0", Sel: ws[1].Sel})
		pick := func(ix []int) []W {
			var out []W
			for _, i := range ix {
				out = append(out, ws[i])
			}
			return out
		}
		permute("PodsFilter["+kind+"]", len(ws), func(ix []int) filter.Filter { return buildPods(kind, pick(ix)) },
			func(ix []int) string { return tPods(kind, pick(ix)...).Name })
	}
	gs := c17Ingresses()
	pickG := func(ix []int) []Ing {
		var out []Ing
		for _, i := range ix {
			out = append(out, gs[i])
		}
		return out
	}
	permute("ServicesFilter", len(gs), func(ix []int) filter.Filter { return buildServices(pickG(ix)) },
		func(ix []int) string { return tServices(pickG(ix)...).Name })

	for _, f := range capViolations(fs.m, 10) {
		res.Violations = append(res.Violations, explore.Violation{Scenario: f.scenario, Messages: []string{f.msg()}, Signature: f.sig})
	}

	// samples: a few terms with their acceptance counts, and equal pairs of different atoms
	for _, i := range []int{0, 1, 3, len(atoms) - 1, len(atoms) + 5, T / 2, T - 1} {
		if i < T {
			res.Samples = append(res.Samples, map[string]interface{}{"term": terms[i].Name, "depth": terms[i].Depth, "accepts": bv[i].count(), "of_objects": len(objs)})
		}
	}
	eqSamples := 0
	for i := 0; i < len(atoms) && eqSamples < 4; i++ {
		for j := i + 1; j < len(atoms) && eqSamples < 4; j++ {
			if terms[i].Ctor != terms[j].Ctor && filter.FiltersEqual(F[i], F[j]) {
				res.Samples = append(res.Samples, map[string]interface{}{"equal_pair": []string{terms[i].Name, terms[j].Name}, "accepts": bv[i].count()})
				eqSamples++
			}
		}
	}
	res.Samples = append(res.Samples, map[string]interface{}{"object": descObj(objs[0])}, map[string]interface{}{"object": descObj(objs[len(objs)-1])})

	res.Complete = aborted == 0 && tot.rows == int64(T)
	res.Evaluations = tot.pairs + tot.equalsCalls + rebuildChecks + permChecks
	res.Distinct = tot.pairs
	res.States = int64(T)
	cov["terms"] = T
	cov["terms_by_depth"] = byDepth
	cov["atoms"] = len(atoms)
	cov["atoms_by_constructor"] = byCtor
	cov["depth2_arity01_closure_over_atoms"] = len(atoms)
	cov["depth2_arity2_closure_over_atoms"] = len(d2base)
	cov["depth3_closure_over_atoms"] = d3names
	cov["objects"] = len(objs)
	cov["ordered_pairs_evaluated"] = tot.pairs
	cov["ordered_pairs_total"] = int64(T) * int64(T)
	cov["equals_calls"] = tot.equalsCalls
	cov["pairs_equal_true"] = tot.eqTrue
	cov["pairs_equal_true_between_different_terms"] = tot.eqTrueOther
	cov["pairs_where_FiltersEqual_and_Equals_disagree"] = tot.disagree
	cov["distinct_bitvectors"] = len(distinctBV)
	cov["fn_free_terms_rebuilt"] = rebuilt
	cov["permutation_checks"] = permChecks
	cov["accept_calls"] = int64(T) * int64(len(objs))
	res.Note = fmt.Sprintf("atoms: all %d; depth 2: arity 0/1 over all atoms, arity 2 over a reduced set of %d atoms (every constructor represented; "+
		"the arity-2 closure over all atoms is infeasible: 3.5e10 ordered pairs); depth 3 over %d atoms; all %d x %d ordered pairs of this universe",
		len(atoms), len(d2base), len(d3atoms), T, T)
	if !res.Complete {
		res.Note += fmt.Sprintf("; INCOMPLETE: time budget %v hit after %d of %d rows", budget, tot.rows, T)
	}
	return res
}
