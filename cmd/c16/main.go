package main

import (
	"verif/harness/c16"
	"verif/runner"
)

func main() { runner.Main(c16.Property()) }
