// Package c07: Refilter emits precisely the membership changes; nothing if
// nothing changes.  A ready filtered subscription over an idle parent; between
// two quiescence barriers exactly one Refilter call; exhaustive over all parent
// contents of the 2-key x {absent, l=0, l=1} universe and all ordered pairs /
// triples of the 10-filter family; the (tiny) schedules inside each call are
// explored completely.
package c07

import (
	"fmt"
	"sort"
	"strings"
	"time"

	"github.com/boz/kcache"
	"github.com/boz/kcache/filter"
	"github.com/boz/kcache/nsname"
	metav1 "k8s.io/apimachinery/pkg/apis/meta/v1"

	"verif/explore"
	"verif/harness/hx"
	"verif/runner"
	"verif/vs"
)

type cfg struct {
	deferred bool  // SubscribeForFilter: seq[0] is supplied by the first Refilter (which makes it ready), after the node has seen its parent ready
	content  int   // 0..8: a in {absent,l=0,l=1} x b in {absent,l=0,l=1}
	seq      []int // filters: seq[0] initial, then Refilter(seq[1]), Refilter(seq[2])
	b2b      bool  // the Refilter calls after the first are issued back to back, one barrier at the end
	grow     bool  // content has no b: b{l=1}@0 is created in the parent between Refilter #1 and Refilter #2
	nsSlice  int   // 1: the same caller-owned id slice [ns/a, ns/*] is passed to NSName for two Refilter calls; 2: an all-partial slice [ns/*] is reused after being changed to [other/*]
	flip     bool  // a's label is flipped by a parent update (a@2) between Refilter #1 and Refilter #2
	stateful bool  // one user filter value (a pointer, no Equals) is passed to every Refilter; its meaning changes in between
}

// statefulFilter is a user filter without Equals, held by pointer, whose accepted set the owner changes before
// passing the same value to Refilter again: nothing may conclude "same filter" from its identity.
type statefulFilter struct{ as int }

func (f *statefulFilter) Accept(o metav1.Object) bool { return hx.RefAccept(f.as, o) }

func objects(content int) []metav1.Object {
	var out []metav1.Object
	for k, name := range []string{"a", "b"} {
		x := content
		if k == 1 {
			x = content / 3
		}
		// b carries resourceVersion "0" (legal, and the zero value of a version): membership must not depend on it
		rv := []string{"1", "0"}[k]
		switch x % 3 {
		case 1:
			out = append(out, hx.Pod("ns", name, rv, "l=0"))
		case 2:
			out = append(out, hx.Pod("ns", name, rv, "l=1"))
		}
	}
	return out
}

type step struct {
	events []string
	list   string
	err    string
}

type inst struct {
	growEvents []string
	growList   string
	c          cfg
	steps      []step
	done       bool
	ready      bool
}

func (in *inst) run() {
	root := hx.NewRoot(filter.Null())
	root.Init(objects(in.c.content))
	spec := hx.Spec{Kind: "fsub", Filter: in.c.seq[0]}
	if in.c.deferred {
		spec = hx.Spec{Kind: "dsub"}
	}
	nodes := hx.Build(root.Pub, []hx.Spec{spec}, nil, "", nil)
	n := nodes[0]
	if n.Err != nil {
		vs.Fail("build | %v", n.Err)
		return
	}
	go n.Consume(false)
	if in.c.deferred {
		time.Sleep(1) // quiescence: the node has observed its parent's readiness and is waiting for a filter
		if err := n.Refilter(hx.MkFilter(in.c.seq[0])); err != nil {
			vs.Fail("first refilter | %v", err)
			return
		}
	}
	<-n.Ready()
	in.ready = true
	barrier := func() step {
		time.Sleep(1) // virtual time only passes at quiescence
		l, err := n.Cache().List()
		st := step{list: hx.ListString(l)}
		if err != nil {
			st.err = err.Error()
		}
		return st
	}
	seen := 0
	st := barrier()
	st.events = append([]string{}, n.Received[seen:]...)
	seen = len(n.Received)
	in.steps = append(in.steps, st)
	if in.c.b2b {
		// no quiescence between the calls: they must still take effect in call order
		for _, f := range in.c.seq[1:] {
			if err := n.Refilter(hx.MkFilter(f)); err != nil {
				in.steps = append(in.steps, step{err: err.Error()})
				return
			}
		}
		st := barrier()
		st.events = append([]string{}, n.Received[seen:]...)
		in.steps = append(in.steps, st)
		in.done = true
		return
	}
	sf := &statefulFilter{}
	ids := []nsname.NSName{nsname.New("ns", "a"), nsname.New("ns", "")}
	if in.c.nsSlice == 2 {
		ids = []nsname.NSName{nsname.New("ns", "")}
	}
	for i, f := range in.c.seq[1:] {
		var ff filter.Filter = hx.MkFilter(f)
		if in.c.nsSlice > 0 {
			// the caller keeps ONE slice of ids and spreads it into the constructor each time
			if in.c.nsSlice == 2 && i == 1 {
				ids[0] = nsname.New("other", "")
			}
			ff = filter.NSName(ids...)
		}
		if in.c.stateful {
			sf.as = f
			ff = sf
		}
		if err := n.Refilter(ff); err != nil {
			in.steps = append(in.steps, step{err: err.Error()})
			return
		}
		st := barrier()
		st.events = append([]string{}, n.Received[seen:]...)
		seen = len(n.Received)
		in.steps = append(in.steps, st)
		if (in.c.grow || in.c.flip) && i == 0 {
			// the parent changes between the two calls (its event is delivered before the next Refilter)
			if in.c.flip {
				root.Publish(kcache.NewEvent(kcache.EventTypeUpdate, flipped(in.c.content)))
			} else {
				root.Publish(kcache.NewEvent(kcache.EventTypeCreate, grown()))
			}
			st := barrier()
			in.growEvents = append([]string{}, n.Received[seen:]...)
			in.growList = st.list
			seen = len(n.Received)
		}
	}
	in.done = true
}

func grown() metav1.Object { return hx.Pod("ns", "b", "0", "l=1") }

// flipped: a at version 2 with the other label value (content must contain a).
func flipped(content int) metav1.Object {
	l := "l=1"
	if content%3 == 2 {
		l = "l=0"
	}
	return hx.Pod("ns", "a", "2", l)
}

func viewG(content, f int, withGrown bool) []metav1.Object {
	return viewM(content, f, withGrown, false)
}

func viewM(content, f int, withGrown, withFlip bool) []metav1.Object {
	objs := objects(content)
	if withGrown {
		objs = append(objs, grown())
	}
	if withFlip {
		for i, o := range objs {
			if o.GetName() == "a" {
				objs[i] = flipped(content)
			}
		}
	}
	var out []metav1.Object
	for _, o := range objs {
		if hx.RefAccept(f, o) {
			out = append(out, o)
		}
	}
	return out
}

func view(content, f int) []metav1.Object {
	var out []metav1.Object
	for _, o := range objects(content) {
		if hx.RefAccept(f, o) {
			out = append(out, o)
		}
	}
	return out
}

func (in *inst) check(r *vs.Result) []string {
	var msgs []string
	c := in.c
	desc := fmt.Sprintf("parent %s, filters %v", hx.ListString(objects(c.content)), names(c.seq))
	if !in.done {
		return []string{fmt.Sprintf("hang | %s: Refilter sequence did not complete (ready=%v, steps %v)", desc, in.ready, in.steps)}
	}
	if c.b2b {
		// judged at the end only: the view is the last filter's, and the events received since the first view fold
		// over that first view into it, without an ill-formed step
		last := c.seq[len(c.seq)-1]
		want := hx.ListString(view(c.content, last))
		if len(in.steps) != 2 {
			return []string{fmt.Sprintf("hang | %s: back-to-back sequence incomplete", desc)}
		}
		if in.steps[1].list != want {
			msgs = append(msgs, fmt.Sprintf("back-to-back Refilter calls not applied in call order | %s: at quiescence the cache holds %s, the last filter %s gives %s", desc, in.steps[1].list, hx.FilterNames[last], want))
		}
		got, ill := hx.Mirror(view(c.content, c.seq[0]), in.steps[1].events)
		if got != in.steps[1].list || len(ill) > 0 {
			msgs = append(msgs, fmt.Sprintf("back-to-back Refilter events do not account for the view | %s: events %v over the first view give %s (ill-formed: %v), the cache holds %s", desc, in.steps[1].events, got, ill, in.steps[1].list))
		}
		return msgs
	}
	if c.flip {
		// after Refilter #1 the parent updated a: Update if it stays, Delete if it leaves, Create if it enters
		wantL := hx.ListString(viewM(c.content, c.seq[1], false, true))
		was, is := false, hx.RefAccept(c.seq[1], flipped(c.content))
		for _, o := range viewG(c.content, c.seq[1], false) {
			if o.GetName() == "a" {
				was = true
			}
		}
		var wantE []string
		switch {
		case was && is:
			wantE = []string{"update:" + hx.ObjString(flipped(c.content))}
		case was:
			wantE = []string{"delete:" + hx.ObjString(flipped(c.content))}
		case is:
			wantE = []string{"create:" + hx.ObjString(flipped(c.content))}
		}
		if in.growList != wantL || strings.Join(in.growEvents, " ") != strings.Join(wantE, " ") {
			msgs = append(msgs, fmt.Sprintf("parent event after a refilter not filtered by the new filter | %s: after the parent updated a to %s the node holds %s (events %v), expected %s (events %v)", desc, hx.ObjString(flipped(c.content)), in.growList, in.growEvents, wantL, wantE))
		}
	}
	if c.grow {
		// after Refilter #1 the parent gained b: the node shows it iff its filter accepts it, announced by one Create
		wantL := hx.ListString(viewG(c.content, c.seq[1], true))
		var wantE []string
		if hx.RefAccept(c.seq[1], grown()) {
			wantE = []string{"create:" + hx.ObjString(grown())}
		}
		if in.growList != wantL || strings.Join(in.growEvents, " ") != strings.Join(wantE, " ") {
			msgs = append(msgs, fmt.Sprintf("parent event after a refilter not filtered by the new filter | %s: after the parent created %s the node holds %s (events %v), expected %s (events %v)", desc, hx.ObjString(grown()), in.growList, in.growEvents, wantL, wantE))
		}
	}
	for i, st := range in.steps {
		f := c.seq[i]
		g := c.grow && i >= 2
		fl := c.flip && i >= 2
		view := func(content, f int) []metav1.Object { return viewM(content, f, g, fl) }
		want := hx.ListString(view(c.content, f))
		if st.list != want {
			msgs = append(msgs, fmt.Sprintf("cache after refilter wrong | %s: after step %d (filter %s) the cache holds %s, expected %s", desc, i, hx.FilterNames[f], st.list, want))
		}
		var wantEv []string
		if i > 0 {
			prev := map[string]bool{}
			for _, o := range view(c.content, c.seq[i-1]) {
				prev[hx.Key(o)] = true
			}
			now := map[string]bool{}
			for _, o := range view(c.content, f) {
				now[hx.Key(o)] = true
				if !prev[hx.Key(o)] {
					wantEv = append(wantEv, "create:"+hx.ObjString(o))
				}
			}
			for _, o := range view(c.content, c.seq[i-1]) {
				if !now[hx.Key(o)] {
					wantEv = append(wantEv, "delete:"+hx.ObjString(o))
				}
			}
		}
		got := append([]string{}, st.events...)
		sort.Strings(got)
		sort.Strings(wantEv)
		if strings.Join(got, " ") != strings.Join(wantEv, " ") {
			class := "refilter events are not the membership change"
			if i > 0 && (c.seq[i] == c.seq[i-1]) {
				class = "refilter to an equal filter emitted events"
			}
			msgs = append(msgs, fmt.Sprintf("%s | %s: Refilter #%d (%s -> %s) delivered %v, expected %v", class, desc, i, hx.FilterNames[c.seq[i-1+btoi(i == 0)]], hx.FilterNames[f], st.events, wantEv))
		}
	}
	return msgs
}

func btoi(b bool) int {
	if b {
		return 1
	}
	return 0
}

func names(fs []int) []string {
	var out []string
	for _, f := range fs {
		out = append(out, hx.FilterNames[f])
	}
	return out
}

func (in *inst) outcome() string { return fmt.Sprint(in.steps) }

func Property() runner.Property {
	return runner.Property{
		ID:          "C07",
		Level:       "model_checking",
		Rule:        "all 9 parent contents over 2 keys x {absent, l=0, l=1} x all ordered pairs (quick) and triples (thorough) of the filter family {Null, All, l=1, l=0, name=a, FN(l==1), And(l=1,name=a), And(l=1,name=b), NSName(a,b), NSName(a, ns/*)} (equal, overlapping, widening by a full id / by a wildcard id, disjoint, accept-all, accept-none, rebuilt-equal, non-comparable); a ready SubscribeWithFilter node (and, on two contents, a SubscribeForFilter node made ready by its first Refilter) over an idle parent; one Refilter between two quiescence barriers; every interleaving inside each call (S1); plus triples with a parent Create between the two calls, triples passing one stateful pointer filter (no Equals) whose meaning changes between the calls, and triples issued back to back (one barrier at the end: last filter's view, events fold into it); oracle: exactly one Delete per cached object the new filter rejects, one Create per parent object newly accepted, nothing else; equal filter: no event, cache unchanged; A->B->A restores A's view",
		Assumptions: []string{"premise of the property: subscription ready and no parent events in flight (barrier = quiescence, decided by the scheduler, not by sleeping)"},
		Scenarios: func(tier string) []runner.Sc {
			var out []runner.Sc
			nf := len(hx.FilterNames)
			var seqs [][]int
			for a := 0; a < nf; a++ {
				for b := 0; b < nf; b++ {
					if tier != "thorough" {
						seqs = append(seqs, []int{a, b})
						if a != b {
							seqs = append(seqs, []int{a, b, a}) // back to the earlier filter
						}
					} else {
						for c := 0; c < nf; c++ {
							seqs = append(seqs, []int{a, b, c})
						}
					}
				}
			}
			// back-to-back triples (no barrier between the calls) on two contents
			for _, content := range []int{5, 8} {
				for a := 0; a < nf; a++ {
					for b := 0; b < nf; b++ {
						for c3 := 0; c3 < nf; c3++ {
							if tier != "thorough" && !(a < 5 && b < 5 && c3 < 5) {
								continue
							}
							c := cfg{content: content, seq: []int{a, b, c3}, b2b: true}
							out = append(out, runner.Sc{Scenario: explore.Scenario{
								Name: fmt.Sprintf("c07/fsub-back-to-back/content%d/%s", content, strings.Join(names(c.seq), ">")), Mode: "S1",
								Cfg: vs.Config{Timers: vs.TimersIdle, MaxSteps: 100000},
								New: func() explore.Instance {
									in := &inst{c: c}
									return explore.Instance{Run: in.run, Check: in.check, Outcome: in.outcome}
								},
							}})
						}
					}
				}
			}
			// the parent gains an object between Refilter #1 and Refilter #2 (contents without b), and: one stateful user
			// filter value reused for every call
			basic := []int{0, 1, 2, 3, 4}
			if tier == "thorough" {
				basic = []int{0, 1, 2, 3, 4, 6, 8, 9}
			}
			for _, variant := range []string{"grow", "flip", "stateful"} {
				contents := []int{1, 2}
				if variant == "stateful" {
					contents = []int{5, 8}
				}
				for _, content := range contents {
					for _, a := range basic {
						for _, b := range basic {
							for _, c3 := range basic {
								c := cfg{content: content, seq: []int{a, b, c3}, grow: variant == "grow", flip: variant == "flip", stateful: variant == "stateful"}
								out = append(out, runner.Sc{Scenario: explore.Scenario{
									Name: fmt.Sprintf("c07/fsub-%s/content%d/%s", variant, content, strings.Join(names(c.seq), ">")), Mode: "S1",
									Cfg: vs.Config{Timers: vs.TimersIdle, MaxSteps: 100000},
									New: func() explore.Instance {
										in := &inst{c: c}
										return explore.Instance{Run: in.run, Check: in.check, Outcome: in.outcome}
									},
								}})
							}
						}
					}
				}
			}
			// a caller-owned slice of ids spread into NSName for consecutive Refilter calls (the constructor must not keep or
			// rewrite it): same slice twice = equal filter; slice changed in place = new filter
			for _, content := range []int{5, 8} {
				for _, c := range []cfg{
					{content: content, seq: []int{0, 9, 9}, nsSlice: 1},
					{content: content, seq: []int{1, 9, 9}, nsSlice: 1},
					{content: content, seq: []int{0, 9, 1}, nsSlice: 2},
				} {
					c := c
					out = append(out, runner.Sc{Scenario: explore.Scenario{
						Name: fmt.Sprintf("c07/fsub-nsname-slice-reused%d/content%d/%s", c.nsSlice, content, strings.Join(names(c.seq), ">")), Mode: "S1",
						Cfg: vs.Config{Timers: vs.TimersIdle, MaxSteps: 100000},
						New: func() explore.Instance {
							in := &inst{c: c}
							return explore.Instance{Run: in.run, Check: in.check, Outcome: in.outcome}
						},
					}})
				}
			}
			for content := 0; content < 9; content++ {
				for _, sq := range seqs {
					for _, deferred := range []bool{false, true} {
						if deferred && (content%4 != 2) {
							continue // deferred variant on a subset of the contents (2 and 6)
						}
						c := cfg{content: content, seq: sq, deferred: deferred}
						kind := "fsub"
						if deferred {
							kind = "dsub"
						}
						out = append(out, runner.Sc{Scenario: explore.Scenario{
							Name: fmt.Sprintf("c07/%s/content%d/%s", kind, content, strings.Join(names(sq), ">")), Mode: "S1",
							Cfg: vs.Config{Timers: vs.TimersIdle, MaxSteps: 100000},
							New: func() explore.Instance {
								in := &inst{c: c}
								return explore.Instance{Run: in.run, Check: in.check, Outcome: in.outcome}
							},
						}})
					}
				}
			}
			return out
		},
	}
}
