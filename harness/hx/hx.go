// Package hx holds the pieces shared by all scenario harnesses: a silent
// logger, object constructors over the small universes and canonical
// renderings of objects, events and lists.
package hx

import (
	"fmt"
	"sort"
	"strings"
	"time"

	logutil "github.com/boz/go-logutil"
	"github.com/boz/kcache"
	corev1 "k8s.io/api/core/v1"
	metav1 "k8s.io/apimachinery/pkg/apis/meta/v1"
)

// NopLog is a deterministic, silent logutil.Log.
type NopLog struct{}

func (NopLog) WithComponent(string) logutil.Log    { return NopLog{} }
func (NopLog) Trace(string, ...interface{}) string { return "" }
func (NopLog) Un(string)                           {}
func (NopLog) Debugf(string, ...interface{})       {}
func (NopLog) Infof(string, ...interface{})        {}
func (NopLog) Warnf(f string, _ ...interface{}) {
	if strings.Contains(f, "buffer") || strings.Contains(f, "overrun") {
		Drops++
	}
}
func (NopLog) Errorf(f string, _ ...interface{}) {
	if strings.Contains(f, "buffer") {
		Drops++
	}
}
func (NopLog) Fatalf(string, ...interface{})                        {}
func (NopLog) ErrWarn(err error, _ string, _ ...interface{}) error  { return err }
func (NopLog) ErrFatal(err error, _ string, _ ...interface{}) error { return err }
func (NopLog) Err(err error, _ string, _ ...interface{}) error      { return err }

var Log logutil.Log = NopLog{}

// SlowLog is NopLog with one slow line: a Debugf whose format starts with Prefix takes D (virtual time). It makes
// the one stage of the library that logs that line slower than its neighbours - what a slow log sink does to a
// program - without touching the library.
type SlowLog struct {
	NopLog
	Prefix string
	D      time.Duration
}

func (l SlowLog) WithComponent(string) logutil.Log { return l }
func (l SlowLog) Debugf(f string, _ ...interface{}) {
	if strings.HasPrefix(f, l.Prefix) {
		time.Sleep(l.D)
	}
}

// Drops counts the "buffer full / overrun" messages the library logged in the current execution (reset by the
// harness at the start of a run; one execution at a time per process; only read by oracles / vacuity counters).
var Drops int

// Pod builds a pod with the given key, resource version and labels ("k=v,k2=v2").
// Every object carries a non-zero metadata.generation that never changes (label and status writes do not bump it),
// and every object named "b" is terminating (deletionTimestamp set, still existing): kcache keys and orders objects
// by namespace/name and resourceVersion only, so neither field may influence anything.
func Pod(ns, name, rv, labels string) *corev1.Pod {
	// metadata nothing in the properties depends on, but a cache might wrongly: a constant generation, annotations that
	// reuse the label key with another value, finalizers on "a", a deletion timestamp and a controller owner on "b"
	p := &corev1.Pod{ObjectMeta: metav1.ObjectMeta{Namespace: ns, Name: name, ResourceVersion: rv, Labels: ParseLabels(labels), Generation: 7,
		Annotations: map[string]string{"l": "9", "name": "zz"}}}
	if name == "a" {
		p.Finalizers = []string{"verif/hold"}
	}
	if name == "b" {
		t := metav1.Unix(1000, 0)
		p.DeletionTimestamp = &t
		yes := true
		p.OwnerReferences = []metav1.OwnerReference{{APIVersion: "apps/v1", Kind: "ReplicaSet", Name: "a", UID: "u-a", Controller: &yes}}
	}
	return p
}

func ParseLabels(s string) map[string]string {
	if s == "" {
		return nil
	}
	m := map[string]string{}
	for _, kv := range strings.Split(s, ",") {
		p := strings.SplitN(kv, "=", 2)
		if len(p) == 2 {
			m[p[0]] = p[1]
		}
	}
	return m
}

func LabelString(m map[string]string) string {
	keys := make([]string, 0, len(m))
	for k := range m {
		keys = append(keys, k)
	}
	sort.Strings(keys)
	var b strings.Builder
	for i, k := range keys {
		if i > 0 {
			b.WriteByte(',')
		}
		b.WriteString(k + "=" + m[k])
	}
	return b.String()
}

// ObjString renders an object as ns/name@rv{labels}.
func ObjString(o metav1.Object) string {
	if o == nil {
		return "<nil>"
	}
	return fmt.Sprintf("%s/%s@%s{%s}", o.GetNamespace(), o.GetName(), o.GetResourceVersion(), LabelString(o.GetLabels()))
}

func Key(o metav1.Object) string { return o.GetNamespace() + "/" + o.GetName() }

// ListString renders a list as a sorted set.
func ListString(l []metav1.Object) string {
	ss := make([]string, 0, len(l))
	for _, o := range l {
		ss = append(ss, ObjString(o))
	}
	sort.Strings(ss)
	return "[" + strings.Join(ss, " ") + "]"
}

func EventString(e kcache.Event) string {
	return fmt.Sprintf("%s:%s", e.Type(), ObjString(e.Resource()))
}

func EventsString(es []kcache.Event) string {
	ss := make([]string, 0, len(es))
	for _, e := range es {
		ss = append(ss, EventString(e))
	}
	return "[" + strings.Join(ss, " ") + "]"
}
