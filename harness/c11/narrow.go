package c11

import (
	"fmt"
	"strings"

	"github.com/boz/kcache"
	"github.com/boz/kcache/filter"
	"github.com/boz/kcache/types/pod"
	metav1 "k8s.io/apimachinery/pkg/apis/meta/v1"

	"verif/explore"
	"verif/harness/ctl"
	"verif/harness/hx"
	"verif/runner"
	"verif/vs"
)

// Publisher-level shutdown scenarios (real cache + root subscription + publisher driven as controller.run drives
// them, hx.Root): the seam is narrow enough for larger deviation bounds than the whole-controller scenarios.
//
//	refilter-racing-root-close: Refilter calls with a changed filter on every refilterable node race with the
//	    root's shutdown (the node may find its parent's cache already stopped);
//	leaf-close-racing-publish-and-stop: one subscription is closed on its own while an event is being distributed and
//	    the root shuts down (the publisher may meet the closing subscription before its unsubscribe request);
//	stalled-typed-subscriber-then-stop: a typed (pod) subscription nobody reads receives more events than its
//	    buffer holds (EventBufsiz modelled as 2), then the root shuts down: every library goroutine must exit;
//	monitor-closed-by-own-handler: a handler closes its own monitor from inside a callback (the "seen what I
//	    wanted" pattern): that monitor's Done() closes, the call returns, siblings keep working.
type ncfg struct {
	name   string
	mode   string
	bound  int
	bufsiz int
}

type ninst struct {
	prop  string
	c     ncfg
	root  *hx.Root
	nodes []*hx.Node

	refDone, stopDone, observed bool
	done                        map[string]bool
	evClosed                    map[string]bool
	selfClosed, selfReturned    bool
	sibling                     []string
	published                   []string
}

func (in *ninst) runRefilter() {
	a := hx.Pod("ns", "a", "1", "l=1")
	b := hx.Pod("ns", "b", "1", "l=0")
	in.root = hx.NewRoot(filter.Null())
	in.root.Init([]metav1.Object{a, b})
	tree := []hx.Spec{
		{Kind: "fclone", Filter: 2, Children: []hx.Spec{{Kind: "sub"}}},
		{Kind: "fsub", Filter: 2},
	}
	in.nodes = hx.Build(in.root.Pub, tree, nil, "", func(*hx.Node) kcache.Handler { return nil })
	hx.Walk(in.nodes, func(n *hx.Node) {
		if n.Err != nil {
			vs.Fail("build | %s: %v", n.Path, n.Err)
			return
		}
		if r := n.Ready(); r != nil {
			<-r
		}
		if n.IsLeaf() {
			n := n
			go n.Consume(false)
		}
	})
	fin := make(chan bool, 4)
	hx.Walk(in.nodes, func(n *hx.Node) {
		if n.FSub != nil || n.FCtrl != nil {
			n := n
			go func() {
				n.Refilter(hx.MkFilter(3)) // a changed filter: the node lists its parent's cache
				fin <- true
			}()
		}
	})
	go func() {
		in.root.Stop()
		fin <- true
	}()
	for i := 0; i < 3; i++ {
		<-fin
	}
	in.refDone, in.stopDone = true, true
	in.observe()
}

func (in *ninst) observe() {
	vs.SleepIdle(1)
	in.done, in.evClosed = map[string]bool{}, map[string]bool{}
	hx.Walk(in.nodes, func(n *hx.Node) {
		in.done[n.Path] = hx.IsClosed(n.Done())
		if n.IsLeaf() {
			in.evClosed[n.Path] = n.EventsClosed
		}
	})
	in.observed = true
}

func (in *ninst) runLeafClose() {
	a := hx.Pod("ns", "a", "1", "l=1")
	in.root = hx.NewRoot(filter.Null())
	in.root.Init([]metav1.Object{a})
	in.nodes = hx.Build(in.root.Pub, []hx.Spec{{Kind: "sub"}, {Kind: "sub"}}, nil, "", func(*hx.Node) kcache.Handler { return nil })
	for _, n := range in.nodes {
		if n.Err != nil {
			vs.Fail("build | %s: %v", n.Path, n.Err)
			return
		}
		<-n.Ready()
		n := n
		go n.Consume(false)
	}
	fin := make(chan bool, 4)
	go func() { in.nodes[0].Close(); fin <- true }()
	go func() {
		in.root.Publish(kcache.NewEvent(kcache.EventTypeUpdate, hx.Pod("ns", "a", "2", "l=1")))
		fin <- true
	}()
	go func() { in.root.Stop(); fin <- true }()
	for i := 0; i < 3; i++ {
		<-fin
	}
	in.refDone, in.stopDone = true, true
	in.observe()
}

// runPublishStopFiltered: two events are distributed to filtered nodes while the root shuts down (a filtered node
// may find its parent's event channel closed at any point of its handling of an event).
func (in *ninst) runPublishStopFiltered() {
	a := hx.Pod("ns", "a", "1", "l=1")
	in.root = hx.NewRoot(filter.Null())
	in.root.Init([]metav1.Object{a})
	tree := []hx.Spec{{Kind: "fsub", Filter: 2}, {Kind: "fclone", Filter: 2, Children: []hx.Spec{{Kind: "sub"}}}}
	in.nodes = hx.Build(in.root.Pub, tree, nil, "", func(*hx.Node) kcache.Handler { return nil })
	hx.Walk(in.nodes, func(n *hx.Node) {
		if n.Err != nil {
			vs.Fail("build | %s: %v", n.Path, n.Err)
			return
		}
		if r := n.Ready(); r != nil {
			<-r
		}
		if n.IsLeaf() {
			n := n
			go n.Consume(false)
		}
	})
	fin := make(chan bool, 4)
	go func() {
		in.root.Publish(kcache.NewEvent(kcache.EventTypeUpdate, hx.Pod("ns", "a", "2", "l=1")))
		in.root.Publish(kcache.NewEvent(kcache.EventTypeCreate, hx.Pod("ns", "b", "3", "l=1")))
		fin <- true
	}()
	go func() { in.root.Stop(); fin <- true }()
	for i := 0; i < 2; i++ {
		<-fin
	}
	in.refDone, in.stopDone = true, true
	in.observe()
}

// runManySubscribers: 40 subscriptions on the root, 10 on a clone, 5 on a filtered clone; two events; the root
// shuts down: everything closes, nothing is left (default schedule: nothing depends on how many subscribers a
// publisher has).
func (in *ninst) runManySubscribers() {
	a := hx.Pod("ns", "a", "1", "l=1")
	in.root = hx.NewRoot(filter.Null())
	in.root.Init([]metav1.Object{a})
	subs := func(n int) []hx.Spec {
		var l []hx.Spec
		for i := 0; i < n; i++ {
			l = append(l, hx.Spec{Kind: "sub"})
		}
		return l
	}
	tree := append(subs(40), hx.Spec{Kind: "clone", Children: subs(10)}, hx.Spec{Kind: "fclone", Filter: 2, Children: subs(5)})
	in.nodes = hx.Build(in.root.Pub, tree, nil, "", func(*hx.Node) kcache.Handler { return nil })
	hx.Walk(in.nodes, func(n *hx.Node) {
		if n.Err != nil {
			vs.Fail("build | %s: %v", n.Path, n.Err)
			return
		}
		if r := n.Ready(); r != nil {
			<-r
		}
		if n.IsLeaf() {
			n := n
			go n.Consume(false)
		}
	})
	in.root.Publish(kcache.NewEvent(kcache.EventTypeUpdate, hx.Pod("ns", "a", "2", "l=1")))
	in.root.Publish(kcache.NewEvent(kcache.EventTypeCreate, hx.Pod("ns", "b", "3", "l=1")))
	vs.SleepIdle(1)
	hx.Walk(in.nodes, func(n *hx.Node) {
		if n.IsLeaf() && len(n.Received) != 2 {
			vs.Fail("node outside the closed subtree stopped working | [many-subscribers-then-stop] leaf %s received %v of 2 published events", n.Path, n.Received)
		}
	})
	in.root.Stop()
	in.refDone, in.stopDone = true, true
	in.observe()
}

// runIdlePublisher: every subscriber of a clone and of a filtered clone leaves; later the clones are closed
// themselves (own) or the root shuts down: a publisher without subscribers still follows its parent.
func (in *ninst) runIdlePublisher(own bool) {
	a := hx.Pod("ns", "a", "1", "l=1")
	in.root = hx.NewRoot(filter.Null())
	in.root.Init([]metav1.Object{a})
	tree := []hx.Spec{{Kind: "clone", Children: []hx.Spec{{Kind: "sub"}}}, {Kind: "fclone", Filter: 2, Children: []hx.Spec{{Kind: "sub"}}}}
	in.nodes = hx.Build(in.root.Pub, tree, nil, "", func(*hx.Node) kcache.Handler { return nil })
	hx.Walk(in.nodes, func(n *hx.Node) {
		if n.Err != nil {
			vs.Fail("build | %s: %v", n.Path, n.Err)
			return
		}
		if r := n.Ready(); r != nil {
			<-r
		}
		if n.IsLeaf() {
			n := n
			go n.Consume(false)
		}
	})
	in.root.Publish(kcache.NewEvent(kcache.EventTypeUpdate, hx.Pod("ns", "a", "2", "l=1")))
	hx.Walk(in.nodes, func(n *hx.Node) {
		if n.IsLeaf() {
			n.Close()
		}
	})
	vs.SleepIdle(1)
	in.root.Publish(kcache.NewEvent(kcache.EventTypeUpdate, hx.Pod("ns", "a", "3", "l=1")))
	vs.SleepIdle(1)
	if own {
		for _, n := range in.nodes {
			n.Close()
		}
	} else {
		in.root.Stop()
	}
	in.refDone, in.stopDone = true, true
	in.observe()
	if own {
		in.root.Stop()
	}
}

func (in *ninst) runStalledTyped() {
	in.root = hx.NewRoot(filter.Null())
	in.root.Init(nil)
	ts, err := pod.VNewController(in.root.Pub).Subscribe()
	if err != nil {
		vs.Fail("build | typed subscribe: %v", err)
		return
	}
	<-ts.Ready()
	for i := 1; i <= 6; i++ {
		t := kcache.EventTypeUpdate
		if i == 1 {
			t = kcache.EventTypeCreate
		}
		in.root.Publish(kcache.NewEvent(t, hx.Pod("ns", "a", fmt.Sprint(i), "l=1")))
		vs.SleepIdle(1)
	}
	in.root.Stop()
	in.refDone, in.stopDone = true, true
	in.observe()
	in.done["typed"] = hx.IsClosed(ts.Done())
}

// runStalledFiltered: a filtered subscription nobody reads receives more accepted events than its buffer holds
// (model buffer 2); then the root shuts down (own=false) or the subscription itself is closed (own=true).  Nobody
// drains Events() first: Done() must close all the same.
func (in *ninst) runStalledFiltered(own bool) {
	in.root = hx.NewRoot(filter.Null())
	in.root.Init(nil)
	in.nodes = hx.Build(in.root.Pub, []hx.Spec{{Kind: "fsub", Filter: 0}}, nil, "", func(*hx.Node) kcache.Handler { return nil })
	n := in.nodes[0]
	if n.Err != nil {
		vs.Fail("build | %v", n.Err)
		return
	}
	<-n.Ready()
	for i := 1; i <= 5; i++ {
		t := kcache.EventTypeUpdate
		if i == 1 {
			t = kcache.EventTypeCreate
		}
		in.root.Publish(kcache.NewEvent(t, hx.Pod("ns", "a", fmt.Sprint(i), "l=1")))
		vs.SleepIdle(1)
	}
	if own {
		n.Close()
	} else {
		in.root.Stop()
	}
	in.refDone, in.stopDone = true, true
	vs.SleepIdle(1)
	in.done = map[string]bool{n.Path: hx.IsClosed(n.Done())}
	in.evClosed = map[string]bool{}
	in.observed = true
	if own {
		in.root.Stop()
	}
}

func (in *ninst) runSelfClose() {
	a := hx.Pod("ns", "a", "1", "l=1")
	in.root = hx.NewRoot(filter.Null())
	in.root.Init([]metav1.Object{a})
	tree := []hx.Spec{{Kind: "mon"}, {Kind: "sub"}}
	var self *hx.Node
	in.nodes = hx.Build(in.root.Pub, tree, nil, "", func(n *hx.Node) kcache.Handler {
		self = n
		return kcache.BuildHandler().
			OnCreate(func(o metav1.Object) {
				// seen what it wanted: stop monitoring, from inside the callback
				in.selfClosed = true
				n.Mon.Close()
				in.selfReturned = true
			}).Create()
	})
	_ = self
	sib := in.nodes[1]
	<-sib.Ready()
	go func() {
		for ev := range sib.Events() {
			in.sibling = append(in.sibling, hx.EventString(ev))
		}
		sib.EventsClosed = true
	}()
	for i, ev := range []kcache.Event{
		kcache.NewEvent(kcache.EventTypeCreate, hx.Pod("ns", "b", "2", "l=1")),
		kcache.NewEvent(kcache.EventTypeUpdate, hx.Pod("ns", "b", "3", "l=1")),
	} {
		in.root.Publish(ev)
		if i == 0 {
			vs.SleepIdle(1)
		}
	}
	in.published = in.root.Published
	in.observe()
	in.root.Stop()
}

func (in *ninst) check(r *vs.Result) []string {
	var msgs []string
	add := func(p, class, format string, args ...interface{}) {
		if p == in.prop {
			msgs = append(msgs, class+" | ["+in.c.name+"] "+fmt.Sprintf(format, args...))
		}
	}
	if !in.observed {
		add("C11", "hang", "the drivers did not finish (refilter returned=%v stop returned=%v handler closed its monitor=%v and that Close() returned=%v); blocked: %v", in.refDone, in.stopDone, in.selfClosed, in.selfReturned, r.Blocked)
		add("C12", "shutdown hangs", "the drivers did not finish (refilter returned=%v stop returned=%v handler closed its monitor=%v and that Close() returned=%v); blocked: %v", in.refDone, in.stopDone, in.selfClosed, in.selfReturned, r.Blocked)
		return msgs
	}
	switch in.c.name {
	case "refilter-racing-root-close":
		for p, d := range in.done {
			if !d {
				add("C11", "descendant not closed", "the root was shut down while Refilter calls were in flight: node %s is not done at quiescence", p)
			}
		}
		for p, c := range in.evClosed {
			if !c {
				add("C11", "events channel not closed", "the root was shut down while Refilter calls were in flight: the Events() channel of leaf %s was never closed", p)
			}
		}
		if left := ctl.LibBlocked(r); len(left) > 0 {
			add("C12", "goroutine leak", "library goroutines alive after the root's shutdown raced with Refilter calls: %v", left)
		}
	case "idle-publisher-then-closed":
		for p, d := range in.done {
			if !d {
				add("C11", "descendant not closed", "node %s was closed after all of its subscribers had left: it is not done at quiescence", p)
			}
		}
		if left := ctl.LibBlocked(r); len(left) > 0 {
			add("C12", "goroutine leak", "library goroutines alive after nodes without subscribers were closed: %v", left)
		}
	case "leaf-close-racing-publish-and-stop", "many-subscribers-then-stop", "publish-racing-stop-with-filtered-nodes", "idle-publisher-then-stop", "stalled-typed-subscriber-then-stop", "stalled-filtered-subscriber-then-stop", "stalled-filtered-subscriber-closes-itself":
		for p, d := range in.done {
			if !d {
				add("C11", "descendant not closed", "node %s is not done at quiescence after the root was shut down", p)
			}
		}
		if left := ctl.LibBlocked(r); len(left) > 0 {
			add("C12", "goroutine leak", "library goroutines alive after the root's shutdown: %v", left)
		}
	case "monitor-closed-by-own-handler":
		if !in.selfClosed {
			add("C11", "harness", "the handler never ran")
			break
		}
		if !in.selfReturned {
			add("C11", "monitor closed from its own handler does not close", "Monitor.Close() called from OnCreate never returned")
			add("C12", "shutdown hangs", "Monitor.Close() called from OnCreate never returned")
		}
		if !in.done["0:mon"] {
			add("C11", "monitor closed from its own handler does not close", "the monitor's Done() is open at quiescence after its handler closed it")
		}
		if in.done["1:sub"] {
			add("C11", "shutdown spreads outside the subtree", "closing the monitor closed its sibling subscription")
		}
		if strings.Join(in.sibling, " ") != strings.Join(in.published, " ") {
			add("C11", "node outside the closed subtree stopped working", "sibling subscription received %v, published %v", in.sibling, in.published)
		}
	}
	return msgs
}

func (in *ninst) outcome() string {
	return fmt.Sprintf("%v %v %v %v %v", in.done, in.evClosed, in.selfClosed, in.selfReturned, in.sibling)
}

func narrow(prop, tier string) []runner.Sc {
	d := 3
	if tier == "thorough" {
		d = 4
	}
	var out []runner.Sc
	for _, c := range []ncfg{
		{name: "refilter-racing-root-close", mode: "S2", bound: d},
		{name: "monitor-closed-by-own-handler", mode: "S2", bound: d},
		{name: "leaf-close-racing-publish-and-stop", mode: "S2", bound: d},
		{name: "publish-racing-stop-with-filtered-nodes", mode: "S2", bound: d - 1},
		{name: "many-subscribers-then-stop", mode: "D0", bound: 0},
		{name: "idle-publisher-then-stop", mode: "S2", bound: d - 2},
		{name: "idle-publisher-then-closed", mode: "S2", bound: d - 2},
		{name: "stalled-typed-subscriber-then-stop", mode: "S2", bound: d - 1, bufsiz: 2},
		{name: "stalled-filtered-subscriber-then-stop", mode: "S2", bound: d - 1, bufsiz: 2},
		{name: "stalled-filtered-subscriber-closes-itself", mode: "S2", bound: d - 1, bufsiz: 2},
	} {
		c := c
		out = append(out, runner.Sc{
			Scenario: explore.Scenario{
				Name: fmt.Sprintf("%s/narrow/%s/%s%d", strings.ToLower(prop), c.name, c.mode, c.bound), Mode: c.mode, Bound: c.bound,
				Cfg: vs.Config{Timers: vs.TimersIdle, MaxSteps: 200000, Bufsiz: c.bufsiz},
				New: func() explore.Instance {
					in := &ninst{prop: prop, c: c}
					run := in.runRefilter
					switch c.name {
					case "monitor-closed-by-own-handler":
						run = in.runSelfClose
					case "leaf-close-racing-publish-and-stop":
						run = in.runLeafClose
					case "publish-racing-stop-with-filtered-nodes":
						run = in.runPublishStopFiltered
					case "many-subscribers-then-stop":
						run = in.runManySubscribers
					case "idle-publisher-then-stop":
						run = func() { in.runIdlePublisher(false) }
					case "idle-publisher-then-closed":
						run = func() { in.runIdlePublisher(true) }
					case "stalled-typed-subscriber-then-stop":
						run = in.runStalledTyped
					case "stalled-filtered-subscriber-then-stop":
						run = func() { in.runStalledFiltered(false) }
					case "stalled-filtered-subscriber-closes-itself":
						run = func() { in.runStalledFiltered(true) }
					}
					return explore.Instance{Run: run, Check: in.check, Outcome: in.outcome}
				},
			},
			Split: true,
		})
	}
	return out
}
