// Package c11 decides C11 (shutdown cascades down the tree, never up or
// sideways) and C12 (termination is clean: no hang, no leak, no zombie, no
// panic) on the whole controller with a tree mixing all six constructors and a
// monitor: every node as the one being closed, every closing mechanism, close
// points enumerated along the workload.
package c11

import (
	"fmt"
	"sort"
	"strings"
	"time"

	"verif/harness/c05"
	"verif/harness/ctl"
	"verif/harness/fakeapi"
	"verif/harness/hx"
	"verif/runner"
	"verif/vs"
)

const P = 3 * time.Second

func tree() []hx.Spec {
	return []hx.Spec{
		{Kind: "sub"},
		{Kind: "fsub", Filter: 2},
		{Kind: "clone", Children: []hx.Spec{{Kind: "sub"}, {Kind: "fclone", Filter: 2, Children: []hx.Spec{{Kind: "sub"}}}}},
		{Kind: "mon"},
		{Kind: "dsub"},
	}
}

func small() []hx.Spec {
	return []hx.Spec{{Kind: "sub"}, {Kind: "clone", Children: []hx.Spec{{Kind: "fsub", Filter: 2}}}}
}

func paths(specs []hx.Spec, prefix string) []string {
	var out []string
	for i, s := range specs {
		p := fmt.Sprintf("%s%d:%s", prefix, i, s.Kind)
		out = append(out, p)
		out = append(out, paths(s.Children, p+"/")...)
	}
	return out
}

type expect struct {
	closed   string // path prefix of the closed subtree ("" = nothing, "*" = everything)
	rootDown bool
}

func inSubtree(p, root string) bool {
	return root == "*" || p == root || strings.HasPrefix(p, root+"/")
}

func oracle(prop string, x expect) func(in *ctl.Inst, r *vs.Result) []string {
	return func(in *ctl.Inst, r *vs.Result) []string {
		var msgs []string
		add := func(p, class, format string, args ...interface{}) {
			if p == prop {
				msgs = append(msgs, class+" | "+in.Desc()+": "+fmt.Sprintf(format, args...))
			}
		}
		o := in.O
		if o.CreateErr != nil {
			return []string{"create failed | " + o.CreateErr.Error()}
		}
		if !o.ObserverRan {
			add("C11", "harness", "observer never ran")
			add("C12", "harness", "observer never ran")
			return msgs
		}
		if !o.Finished {
			add("C12", "shutdown hangs", "a Close()/Done()/API call did not return by the end of the run (closes returned %d of %d, racing driver finished=%v, post-shutdown calls %v); blocked: %v", o.CloseReturned, o.ClosesIssued, o.RaceDone || !in.C.RaceAPI, o.PostAPI, ctl.BlockedNames(r))
			if prop == "C12" {
				return msgs
			}
			// C11: what the observer saw at quiescence is still judged below
		}
		if lb := ctl.LibBlocked(r); len(lb) > 0 && o.Finished {
			add("C12", "goroutine leak", "library goroutines alive after the root is done: %v", lb)
		}
		if in.C.Close.Kind != "" && !strings.HasPrefix(in.C.Close.Kind, "node:") && in.C.Close.Kind != "ctx" && o.CloseReturned != o.ClosesIssued {
			add("C12", "Close did not return", "%d of %d Close calls returned", o.CloseReturned, o.ClosesIssued)
		}
		for _, s := range append(append([]string{}, o.PostAPI...), o.RaceAPI...) {
			if !strings.HasSuffix(s, ":ok") && !strings.Contains(s, "Not running") {
				add("C12", "API call failed with an unexpected error", "%s", s)
			}
		}
		if in.C.APICalls {
			for _, s := range o.PostAPI {
				if strings.HasPrefix(s, "Subscribe") || strings.HasPrefix(s, "Clone") {
					// allowed: ErrNotRunning, or an object that is itself shut down (postAPI waited for its Done)
				}
			}
		}
		// cascade (observed before the final Close of the run)
		triggered := true
		if in.C.Close.Kind != "" && !o.CloserStartedAtRead {
			triggered = false // the scripted closer had not acted yet when the observer looked
		}
		for k := range in.C.ListFaults {
			if f := in.C.ListFaults[k]; (f.Kind == "error" || f.Kind == "canceled") && o.Lists < k {
				triggered = false // the failing list had not been issued when the observer looked
			}
		}
		if x.closed == "*" && !o.DoneAtRead && triggered {
			add("C11", "controller not closed", "the closing trigger has fired but the controller's Done() is open at quiescence (error %q)", o.ErrAtRead)
		}
		if x.closed != "" && triggered {
			ps := make([]string, 0, len(o.NodeDone))
			for p := range o.NodeDone {
				ps = append(ps, p)
			}
			sort.Strings(ps)
			want := ctl.Accepted(in.C.Filter, nil)
			_ = want
			for _, p := range ps {
				if strings.HasPrefix(o.NodeCache[p], "builderr:") {
					continue // created after the shutdown: nothing to demand
				}
				if inSubtree(p, x.closed) {
					if !o.NodeDone[p] {
						add("C11", "descendant not closed", "node %s is in the closed subtree %q but its Done() is open at quiescence", p, x.closed)
					}
					if closed, leaf := o.LeafClosed[p]; leaf && !closed {
						add("C11", "events channel not closed", "leaf %s is in the closed subtree %q but its Events() channel was not closed", p, x.closed)
					}
				} else {
					if o.NodeDone[p] {
						add("C11", "shutdown spreads outside the subtree", "node %s is outside the closed subtree %q but is done", p, x.closed)
					}
				}
			}
			if x.closed != "*" && o.DoneAtRead {
				add("C11", "shutdown spreads upwards", "closing %q shut the controller down (error %q)", x.closed, o.ErrAtRead)
			}
		}
		// nodes outside the closed subtree still work: their caches follow the server (last mutation came after the close)
		if !x.rootDown && !o.DoneAtRead && o.HistDoneAtRead {
			srv := in.Srv
			_ = srv
			for p, c := range o.NodeCache {
				if inSubtree(p, x.closed) && x.closed != "" || strings.HasPrefix(c, "builderr:") || strings.Contains(p, "dsub") {
					continue
				}
				want := in.ExpectedNodeCache(p)
				if want != "" && c != want {
					add("C11", "node outside the closed subtree stopped working", "node %s holds %s but the server content filtered along its path is %s (controller cache %s)", p, c, want, o.CacheAtRead)
				}
			}
		}
		return msgs
	}
}

func scenarios(prop, tier string) []runner.Sc {
	d := 1
	if tier == "thorough" {
		d = 2
	}
	pre := []ctl.Mut{{Op: "set", Name: "a", Labels: "l=1"}}
	h := []ctl.Mut{{Op: "set", Name: "b", Labels: "l=1"}, {Op: "set", Name: "a", Labels: "l=0"}, {Op: "set", Name: "b", Labels: "l=0", Delay: time.Second}}
	var out []runner.Sc
	mk := func(name string, c ctl.Cfg, x expect) {
		c.Name, c.Period, c.Mode = name, P, "S2"
		if c.Bound == 0 {
			c.Bound = d
		}
		c.Pre, c.Hist = pre, h
		if c.ReadAt == 0 {
			c.ReadAt = 2500 * time.Millisecond
		}
		out = append(out, ctl.Scenario(prop, c, oracle(prop, x)))
	}
	t := tree()
	ks := []int{1}
	if tier == "thorough" {
		ks = []int{0, 1, 2}
	}
	if prop == "C11" {
		for _, p := range paths(t, "") {
			for _, k := range ks {
				mk(fmt.Sprintf("close-node/%s/after%d", p, k), ctl.Cfg{Tree: t, Close: ctl.CloseSpec{Kind: "node:" + p, AfterMut: k}}, expect{closed: p})
			}
		}
		mk("nothing-closed", ctl.Cfg{Tree: t}, expect{})
	}
	for _, kind := range []string{"close", "ctx", "close2", "closetwice"} {
		for _, k := range ks {
			mk(fmt.Sprintf("root-%s/after%d", kind, k), ctl.Cfg{Tree: t, Close: ctl.CloseSpec{Kind: kind, AfterMut: k}, APICalls: prop == "C12"}, expect{closed: "*", rootDown: true})
		}
	}
	// shutdown triggers racing with a list in flight: the controller may see the cancelled list result or its own shutdown request first
	mk("root-ctx-while-list-blocks", ctl.Cfg{Tree: t, ListFaults: map[int]fakeapi.ListFault{1: {Kind: "block"}}, Close: ctl.CloseSpec{Kind: "ctx", AfterMut: -1, At: time.Second}, APICalls: prop == "C12"}, expect{closed: "*", rootDown: true})
	mk("root-ctx-while-relist-blocks", ctl.Cfg{Tree: t, ListFaults: map[int]fakeapi.ListFault{2: {Kind: "block"}}, Close: ctl.CloseSpec{Kind: "ctx", AfterMut: -1, At: 4 * time.Second}, ReadAt: 6 * time.Second, APICalls: prop == "C12"}, expect{closed: "*", rootDown: true})
	mk("root-list-canceled-error/list2", ctl.Cfg{Tree: t, ListFaults: map[int]fakeapi.ListFault{2: {Kind: "canceled"}}, ReadAt: 5 * time.Second, APICalls: prop == "C12"}, expect{closed: "*", rootDown: true})
	mk("root-list-error/list2", ctl.Cfg{Tree: t, ListFaults: map[int]fakeapi.ListFault{2: {Kind: "error"}}, ReadAt: 5 * time.Second, APICalls: prop == "C12"}, expect{closed: "*", rootDown: true})
	// the root is closed (or its relist fails) after the watch has reconnected once
	mk("root-close-after-a-watch-reconnect", ctl.Cfg{Tree: t, WatchFaults: map[int]fakeapi.WatchFault{1: {Kind: "close", After: 0}}, Close: ctl.CloseSpec{Kind: "close", AfterMut: -1, At: 2500 * time.Millisecond}, ReadAt: 2800 * time.Millisecond, APICalls: prop == "C12"}, expect{closed: "*", rootDown: true})
	mk("root-list-error-after-a-watch-reconnect/list2", ctl.Cfg{Tree: t, WatchFaults: map[int]fakeapi.WatchFault{1: {Kind: "close", After: 0}}, ListFaults: map[int]fakeapi.ListFault{2: {Kind: "error"}}, ReadAt: 5 * time.Second, APICalls: prop == "C12"}, expect{closed: "*", rootDown: true})
	if prop == "C12" {
		W := func(kind string, after int) fakeapi.WatchFault { return fakeapi.WatchFault{Kind: kind, After: after} }
		sm := small()
		// shutdown from particular states
		mk("close-while-first-list-in-flight", ctl.Cfg{Tree: sm, ListFaults: map[int]fakeapi.ListFault{1: {Latency: 2 * time.Second}}, Close: ctl.CloseSpec{Kind: "close", AfterMut: -1, At: time.Second}, APICalls: true}, expect{closed: "*", rootDown: true})
		mk("close-while-list-blocks", ctl.Cfg{Tree: sm, ListFaults: map[int]fakeapi.ListFault{1: {Kind: "block"}}, Close: ctl.CloseSpec{Kind: "close", AfterMut: -1, At: time.Second}, APICalls: true}, expect{closed: "*", rootDown: true})
		mk("close-while-watch-connecting", ctl.Cfg{Tree: sm, DefaultWatch: W("block", 0), Close: ctl.CloseSpec{Kind: "close", AfterMut: 1}, APICalls: true}, expect{closed: "*", rootDown: true})
		mk("ctx-while-watch-connecting", ctl.Cfg{Tree: sm, DefaultWatch: W("block", 0), Close: ctl.CloseSpec{Kind: "ctx", AfterMut: 1}, APICalls: true}, expect{closed: "*", rootDown: true})
		mk("close-after-relist-while-watch-connecting", ctl.Cfg{Tree: sm, DefaultWatch: W("block", 0), Close: ctl.CloseSpec{Kind: "close", AfterMut: -1, At: 4 * time.Second}, ReadAt: 6 * time.Second, APICalls: true}, expect{closed: "*", rootDown: true})
		mk("close-after-reconnect", ctl.Cfg{Tree: sm, WatchFaults: map[int]fakeapi.WatchFault{1: W("close", 0)}, Close: ctl.CloseSpec{Kind: "close", AfterMut: -1, At: 2500 * time.Millisecond}, ReadAt: 2800 * time.Millisecond, APICalls: true}, expect{closed: "*", rootDown: true})
		mk("close-after-reconnect-while-connecting", ctl.Cfg{Tree: sm, WatchFaults: map[int]fakeapi.WatchFault{1: W("close", 0), 2: W("block", 0)}, Close: ctl.CloseSpec{Kind: "close", AfterMut: -1, At: 2500 * time.Millisecond}, ReadAt: 2800 * time.Millisecond, APICalls: true}, expect{closed: "*", rootDown: true})
		mk("close-while-retry-pending", ctl.Cfg{Tree: sm, DefaultWatch: W("error", 0), Close: ctl.CloseSpec{Kind: "close", AfterMut: -1, At: 1500 * time.Millisecond}, APICalls: true}, expect{closed: "*", rootDown: true})
		// shutdown while the controller is busy in a slow user filter (watch frames keep arriving meanwhile)
		for _, kind := range []string{"close", "ctx"} {
			mk(kind+"-while-controller-busy-in-a-slow-filter", ctl.Cfg{Tree: sm, SlowOn: "a", Close: ctl.CloseSpec{Kind: kind, AfterMut: -1, At: 500 * time.Millisecond}, ReadAt: 6 * time.Second, APICalls: true}, expect{closed: "*", rootDown: true})
		}
		// a relist slower than the refresh period (the tick fires while it is in flight), then Close once its result is in
		mk("close-after-list-slower-than-period", ctl.Cfg{Tree: sm, ListFaults: map[int]fakeapi.ListFault{2: {Latency: 4 * time.Second}}, Close: ctl.CloseSpec{Kind: "close", AfterMut: -1, At: 8 * time.Second}, ReadAt: 10 * time.Second, APICalls: true}, expect{closed: "*", rootDown: true})
		mk("ctx-during-list-slower-than-period", ctl.Cfg{Tree: sm, ListFaults: map[int]fakeapi.ListFault{2: {Latency: 4 * time.Second}}, Close: ctl.CloseSpec{Kind: "ctx", AfterMut: -1, At: 6500 * time.Millisecond}, ReadAt: 10 * time.Second, APICalls: true}, expect{closed: "*", rootDown: true})
		mk("close-during-relist", ctl.Cfg{Tree: sm, ListFaults: map[int]fakeapi.ListFault{2: {Latency: time.Second}}, Close: ctl.CloseSpec{Kind: "close", AfterMut: -1, At: 3600 * time.Millisecond}, ReadAt: 6 * time.Second, APICalls: true}, expect{closed: "*", rootDown: true})
		// API calls racing with shutdown
		for _, kind := range []string{"close", "ctx"} {
			mk("race-api/"+kind, ctl.Cfg{Tree: sm, RaceAPI: true, Close: ctl.CloseSpec{Kind: kind, AfterMut: 0}, APICalls: true}, expect{rootDown: true})
			mk("race-api-after1/"+kind, ctl.Cfg{Tree: sm, RaceAPI: true, Close: ctl.CloseSpec{Kind: kind, AfterMut: 1}, APICalls: true}, expect{rootDown: true})
		}
		mk("race-api/no-close", ctl.Cfg{Tree: sm, RaceAPI: true, APICalls: true}, expect{})
		// the context ends while a watch event / a list result is on its way through the controller (the cache may be
		// down before the controller hands it over)
		for _, cc := range []ctl.Cfg{{CancelOnFrame: 1}, {CancelOnFrame: 2}, {CancelOnList: 1}, {CancelOnList: 2, ReadAt: 5 * time.Second}} {
			cc.APICalls, cc.Bound = true, d+1
			mk(fmt.Sprintf("ctx-as-frame%d-list%d-is-handed-over", cc.CancelOnFrame, cc.CancelOnList), cc, expect{closed: "*", rootDown: true})
		}
	}
	return out
}

func Property(id string) runner.Property {
	rule := map[string]string{
		"C11": "oracle at quiescence after the close: every node of the closed node's subtree has Done() closed and (leaves) its Events() channel closed after the buffered events; no node outside the subtree is done, the controller is not done, and the nodes outside still follow the server (a mutation issued a second later is in their caches)",
		"C12": "oracle: every Close() returns, root Done() closes, no goroutine started by the library is left (exact: scheduler's goroutine table), no panic, every public call issued after Done() or racing with shutdown returns ErrNotRunning or an object that is itself shut down; shutdown from: not ready with the first list in flight or blocking, watch connecting (blocking until its context is cancelled), retry timer pending, relist in flight; triggers Close, 2 concurrent Close, Close twice, context cancel, fatal list error",
	}
	return runner.Property{
		ID:           id,
		Level:        "model_checking",
		QuickBudgetS: 600, ThoroughBudgetS: 3000,
		Rule: "whole controller (real Builder.Create) against the scripted API server with a tree mixing Subscribe, SubscribeWithFilter, SubscribeForFilter, Clone, CloneWithFilter (nested), a monitor; every node as the one being closed x close points along the workload; every closing mechanism for the root; schedules within d deviations of the default (d=1 quick, 2 thorough); " + rule[id],
		Assumptions: []string{
			"client List/Watch return once their context is cancelled (premise of C12; the scripted server honours it)",
			"deviation-bounded whole-system exploration; the publisher-level trees of C05/C10/C16 and the seams of C04/C13 cover component shutdown under all interleavings",
		},
		Scenarios: func(tier string) []runner.Sc {
			out := scenarios(id, tier)
			out = append(out, narrow(id, tier)...)
			if id == "C11" {
				// publisher-level: a leaf closed while events are flowing must not disturb its siblings (all interleavings)
				out = append(out, c05.SiblingScenarios("C11", tier)...)
			}
			return out
		},
	}
}
