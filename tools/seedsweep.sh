#!/bin/bash
# runs every seeded change (and every own mutant with a known target) against the check of its property; prints one line each
cd /verif
# seeded dirs: C07-1 (round 1), C07-r2-1 (round 2); property = text before the first '-'
for d in seeded/*/; do
  id=$(basename $d); prop=${id%%-*}
  out=$(tools/seedcheck.sh /verif/$d/patch.diff $prop 2>&1)
  if echo "$out" | grep -q "rc=1"; then echo "$id caught by $prop"; else echo "$id MISSED by $prop: $(echo "$out" | head -2 | tr '\n' ' ' | cut -c1-200)"; fi
done
# own regression mutants: <file> <check>
while read f id; do
  out=$(tools/seedcheck.sh /verif/mutants/$f $id 2>&1)
  if echo "$out" | grep -q "rc=1"; then echo "mutant $f caught by $id"; else echo "mutant $f MISSED by $id: $(echo "$out" | head -2 | tr '\n' ' ' | cut -c1-200)"; fi
done <<'LIST'
c15_shared_scratch_slice.diff C15
c01_accept_nil_zero_entry.diff C01
c01_duplicate_key_newest_rejected.diff C01
c02_update_le.diff C02
c02_delete_unknown_emits.diff C02
c13_ticker_blocking_drain.diff C13
c10_blocking_outch_send.diff C10
c08_ready_before_sync.diff C08
c06_forget_filter_assignment.diff C06
c04_watcher_outch_renewed_on_retry.diff C04
c12_session_stop_without_cancel.diff C12
c14_later_list_errors_ignored.diff C14
c11_monitor_close_does_not_close_subscription.diff C11
c09_ingresspods_leaks_intermediate_join.diff C09
c20_typed_monitor_passes_nil_for_foreign.diff C20
c19_rc_no_template_fallback.diff C19
LIST
