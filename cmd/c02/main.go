package main

import (
	"verif/harness/c01"
	"verif/runner"
)

func main() { runner.Main(c01.Property("C02")) }
