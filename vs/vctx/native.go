//go:build vsnative

package vctx

import "context"

type Context = context.Context
type CancelFunc = context.CancelFunc

var Canceled = context.Canceled
var DeadlineExceeded = context.DeadlineExceeded

func Background() Context { return context.Background() }
func TODO() Context       { return context.TODO() }
func WithValue(parent Context, key, val interface{}) Context {
	return context.WithValue(parent, key, val)
}
func WithCancel(parent Context) (Context, CancelFunc) { return context.WithCancel(parent) }
