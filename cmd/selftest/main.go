package main

import (
	"verif/harness/selftest"
	"verif/runner"
)

func main() { runner.Main(selftest.Property()) }
