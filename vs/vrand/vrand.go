//go:build !vsnative

// Package vrand stands in for math/rand in transformed code: every draw is an
// explorer choice over a small set of representative values.
package vrand

import "verif/vs"

// Floats are the representative draws; a scenario may narrow them at the start of an execution.
var Floats = []float64{0.5, 0, 0.999999}

func Float64() float64 { return Floats[vs.Choose(len(Floats))] }

func Intn(n int) int {
	if n <= 1 {
		return 0
	}
	k := n
	if k > 3 {
		k = 3
	}
	c := vs.Choose(k)
	switch c {
	case 0:
		return 0
	case 1:
		return n - 1
	default:
		return n / 2
	}
}

func Int() int     { return Intn(1 << 30) }
func Int63() int64 { return int64(Intn(1 << 30)) }
func Seed(int64)   {}
