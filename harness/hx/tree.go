package hx

import (
	"context"
	"fmt"
	logutil "github.com/boz/go-logutil"
	"sort"
	"strconv"
	"strings"

	"github.com/boz/kcache"
	"github.com/boz/kcache/filter"
	"github.com/boz/kcache/nsname"
	metav1 "k8s.io/apimachinery/pkg/apis/meta/v1"
)

// ---- the publisher-level root: real cache + real root subscription + real publisher ----

// Root plays controller.run for a tree of subscribers: it owns a real _cache,
// the real root _subscription and the real publisher, and publishes exactly the
// way the controller does (cache.update first, then send every returned event).
type Root struct {
	Cache     kcache.VCache
	Sub       kcache.VSub
	Pub       kcache.Controller
	StopCh    chan struct{}
	ReadyCh   chan struct{}
	Published []string // rendered events in publication order (written by the publishing driver only)
}

func NewRoot(f filter.Filter) *Root { return NewRootLog(f, Log) }

// NewRootLog: the root with a logger of the caller's (everything subscribed below inherits it; see SlowLog).
func NewRootLog(f filter.Filter, log logutil.Log) *Root {
	r := &Root{StopCh: make(chan struct{}), ReadyCh: make(chan struct{})}
	r.Cache = kcache.VNewCache(context.Background(), log, r.StopCh, f)
	r.Sub = kcache.VNewSubscription(log, r.StopCh, r.ReadyCh, r.Cache.Reader())
	r.Pub = kcache.VNewPublisher(log, r.Sub.Sub())
	return r
}

// Init applies the first list and becomes ready (no events are distributed for it).
func (r *Root) Init(list []metav1.Object) {
	r.Cache.Sync(list)
	close(r.ReadyCh)
}

// Publish applies one incoming event like controller.run does.
func (r *Root) Publish(ev kcache.Event) {
	evs, err := r.Cache.Update(ev)
	if err != nil {
		return
	}
	for _, e := range evs {
		r.Published = append(r.Published, EventString(e))
		r.Sub.Send(e)
	}
}

// Relist applies a list like controller.run does after the first one.
func (r *Root) Relist(list []metav1.Object) {
	evs, err := r.Cache.Sync(list)
	if err != nil {
		return
	}
	for _, e := range evs {
		r.Published = append(r.Published, EventString(e))
		r.Sub.Send(e)
	}
}

// Stop is what the controller's lifecycle does on shutdown.
func (r *Root) Stop() { close(r.StopCh) }

// ---- filters of the small universe -----------------------------------------------------

var FilterNames = []string{"Null", "All", "l=1", "l=0", "name=a", "FN(l==1)", "And(l=1,name=a)", "And(l=1,name=b)", "name in {a,b}", "name=a or ns=ns"}

func MkFilter(i int) filter.Filter {
	switch i {
	case 0:
		return filter.Null()
	case 1:
		return filter.All()
	case 2:
		return filter.Labels(map[string]string{"l": "1"})
	case 3:
		return filter.Labels(map[string]string{"l": "0"})
	case 4:
		return filter.NSName(nsname.New("ns", "a"))
	case 6:
		return filter.And(filter.Labels(map[string]string{"l": "1"}), filter.NSName(nsname.New("ns", "a")))
	case 7:
		// same first child as 6, different second child
		return filter.And(filter.Labels(map[string]string{"l": "1"}), filter.NSName(nsname.New("ns", "b")))
	case 8:
		// widens 4 by a second full id
		return filter.NSName(nsname.New("ns", "a"), nsname.New("ns", "b"))
	case 9:
		// widens 4 by a partial (namespace wildcard) id
		return filter.NSName(nsname.New("ns", "a"), nsname.New("ns", ""))
	default:
		return filter.FN(func(o metav1.Object) bool { return o.GetLabels()["l"] == "1" })
	}
}

// RefAccept is the reference meaning of filter i (independent of the filter package).
func RefAccept(i int, o metav1.Object) bool {
	switch i {
	case 0:
		return true
	case 1:
		return false
	case 2, 5:
		return o.GetLabels()["l"] == "1"
	case 3:
		return o.GetLabels()["l"] == "0"
	case 6:
		return o.GetLabels()["l"] == "1" && o.GetNamespace() == "ns" && o.GetName() == "a"
	case 7:
		return o.GetLabels()["l"] == "1" && o.GetNamespace() == "ns" && o.GetName() == "b"
	case 8:
		return o.GetNamespace() == "ns" && (o.GetName() == "a" || o.GetName() == "b")
	case 9:
		return o.GetNamespace() == "ns"
	default:
		return o.GetNamespace() == "ns" && o.GetName() == "a"
	}
}

// ---- trees -------------------------------------------------------------------------------

// Spec describes one node below a publisher.
//
//	kind: sub | fsub (SubscribeWithFilter) | dsub (SubscribeForFilter) | clone | fclone | dclone | mon
type Spec struct {
	Kind     string
	Filter   int
	Children []Spec
}

func (s Spec) String() string {
	n := s.Kind
	if s.Kind == "fsub" || s.Kind == "fclone" {
		n += "[" + FilterNames[s.Filter] + "]"
	}
	if len(s.Children) > 0 {
		var cs []string
		for _, c := range s.Children {
			cs = append(cs, c.String())
		}
		n += "(" + strings.Join(cs, ",") + ")"
	}
	return n
}

// Node is a built node.
type Node struct {
	Spec     Spec
	Path     string
	Parent   *Node
	Children []*Node
	Err      error

	Ctrl  kcache.Controller         // clone kinds
	FCtrl kcache.FilterController   // fclone, dclone
	Sub   kcache.Subscription       // sub kinds
	FSub  kcache.FilterSubscription // fsub, dsub
	Mon   kcache.Monitor

	// consumer observations (written by the node's consumer goroutine only)
	Received     []string
	EventsClosed bool
	ReadyAtFirst []bool // was Ready() closed when the i-th event was received
	GetOlder     []string
	Calls        []string // monitor callbacks
}

func (n *Node) IsLeaf() bool { return n.Sub != nil }

// Events returns the event channel of a leaf.
func (n *Node) Events() <-chan kcache.Event {
	if n.Sub != nil {
		return n.Sub.Events()
	}
	return nil
}

func (n *Node) Cache() kcache.CacheReader {
	switch {
	case n.Sub != nil:
		return n.Sub.Cache()
	case n.Ctrl != nil:
		return n.Ctrl.Cache()
	}
	return nil
}

func (n *Node) Ready() <-chan struct{} {
	switch {
	case n.Sub != nil:
		return n.Sub.Ready()
	case n.Ctrl != nil:
		return n.Ctrl.Ready()
	}
	return nil
}

func (n *Node) Done() <-chan struct{} {
	switch {
	case n.Mon != nil:
		return n.Mon.Done()
	case n.Sub != nil:
		return n.Sub.Done()
	case n.Ctrl != nil:
		return n.Ctrl.Done()
	}
	return nil
}

func (n *Node) Close() {
	switch {
	case n.Mon != nil:
		n.Mon.Close()
	case n.Sub != nil:
		n.Sub.Close()
	case n.Ctrl != nil:
		n.Ctrl.Close()
	}
}

func (n *Node) Refilter(f filter.Filter) error {
	switch {
	case n.FSub != nil:
		return n.FSub.Refilter(f)
	case n.FCtrl != nil:
		return n.FCtrl.Refilter(f)
	}
	return fmt.Errorf("node %s cannot refilter", n.Path)
}

// Build creates the nodes of specs below publisher p (in order) and returns them.
func Build(p kcache.Publisher, specs []Spec, parent *Node, prefix string, handler func(*Node) kcache.Handler) []*Node {
	var out []*Node
	for i, sp := range specs {
		n := &Node{Spec: sp, Parent: parent, Path: prefix + strconv.Itoa(i) + ":" + sp.Kind}
		switch sp.Kind {
		case "sub":
			n.Sub, n.Err = p.Subscribe()
		case "fsub":
			n.FSub, n.Err = p.SubscribeWithFilter(MkFilter(sp.Filter))
			if n.Err == nil {
				n.Sub = n.FSub
			}
		case "dsub":
			n.FSub, n.Err = p.SubscribeForFilter()
			if n.Err == nil {
				n.Sub = n.FSub
			}
		case "clone":
			n.Ctrl, n.Err = p.Clone()
		case "fclone":
			n.FCtrl, n.Err = p.CloneWithFilter(MkFilter(sp.Filter))
			if n.Err == nil {
				n.Ctrl = n.FCtrl
			}
		case "dclone":
			n.FCtrl, n.Err = p.CloneForFilter()
			if n.Err == nil {
				n.Ctrl = n.FCtrl
			}
		case "mon":
			n.Mon, n.Err = kcache.NewMonitor(p, handler(n))
		}
		if n.Err == nil && n.Ctrl != nil && len(sp.Children) > 0 {
			n.Children = Build(n.Ctrl, sp.Children, n, n.Path+"/", handler)
		}
		out = append(out, n)
	}
	return out
}

// Walk visits every node of the forest.
func Walk(ns []*Node, fn func(*Node)) {
	for _, n := range ns {
		fn(n)
		Walk(n.Children, fn)
	}
}

// Consume drains a leaf's event channel until it is closed, recording what it sees.
// After every event it reads the leaf's cache for the event's key.
func (n *Node) Consume(withGet bool) {
	for ev := range n.Events() {
		n.Received = append(n.Received, EventString(ev))
		ready := false
		select {
		case <-n.Ready():
			ready = true
		default:
		}
		n.ReadyAtFirst = append(n.ReadyAtFirst, ready)
		if withGet {
			o := ev.Resource()
			got, err := n.Cache().Get(o.GetNamespace(), o.GetName())
			if err == nil && got != nil {
				if Ver(got) < Ver(o) {
					n.GetOlder = append(n.GetOlder, fmt.Sprintf("after %s Get returned %s", EventString(ev), ObjString(got)))
				}
			}
			// List is a separate read path of the cache: it may not lag behind either
			if l, err := n.Cache().List(); err == nil {
				for _, x := range l {
					if Key(x) == Key(o) && Ver(x) < Ver(o) {
						n.GetOlder = append(n.GetOlder, fmt.Sprintf("after %s List returned %s", EventString(ev), ObjString(x)))
					}
				}
			}
		}
	}
	n.EventsClosed = true
}

func Ver(o metav1.Object) int {
	v, _ := strconv.Atoi(o.GetResourceVersion())
	return v
}

// Mirror replays rendered events ("type:ns/name@rv{labels}") over a map and reports ill-formed steps.
func Mirror(start []metav1.Object, events []string) (content string, illformed []string) {
	cur := map[string]string{}
	ver := map[string]int{}
	for _, o := range start {
		cur[Key(o)] = ObjString(o)
		ver[Key(o)] = Ver(o)
	}
	for _, e := range events {
		i := strings.Index(e, ":")
		typ, obj := e[:i], e[i+1:]
		at := strings.Index(obj, "@")
		key := obj[:at]
		v, _ := strconv.Atoi(obj[at+1 : strings.Index(obj, "{")])
		_, present := cur[key]
		switch typ {
		case "create":
			if present {
				illformed = append(illformed, "create of present key: "+e)
			}
			cur[key], ver[key] = obj, v
		case "update":
			if !present {
				illformed = append(illformed, "update of absent key: "+e)
			} else if v <= ver[key] {
				illformed = append(illformed, "update not newer: "+e)
			}
			cur[key], ver[key] = obj, v
		case "delete":
			if !present {
				illformed = append(illformed, "delete of absent key: "+e)
			}
			delete(cur, key)
			delete(ver, key)
		}
	}
	var ss []string
	for _, v := range cur {
		ss = append(ss, v)
	}
	sort.Strings(ss)
	return "[" + strings.Join(ss, " ") + "]", illformed
}

// IsClosed reports whether ch is closed (visible read; use at quiescent points of the harness).
func IsClosed(ch <-chan struct{}) bool {
	if ch == nil {
		return false
	}
	select {
	case <-ch:
		return true
	default:
		return false
	}
}

// MirrorTolerant replays events over a rendered list, ignoring events that do not move a key's version forward
// (the snapshot at readiness may already include them).
func MirrorTolerant(start string, events []string) string {
	cur := map[string]string{}
	ver := map[string]int{}
	parse := func(obj string) (string, int) {
		at := strings.Index(obj, "@")
		var v int
		fmt.Sscanf(obj[at+1:], "%d", &v)
		return obj[:at], v
	}
	s := strings.Trim(start, "[]")
	if s != "" {
		for _, o := range strings.Split(s, " ") {
			k, v := parse(o)
			cur[k], ver[k] = o, v
		}
	}
	for _, e := range events {
		i := strings.Index(e, ":")
		typ, obj := e[:i], e[i+1:]
		k, v := parse(obj)
		switch typ {
		case "delete":
			// applies to a present key unless the snapshot already holds something newer
			if pv, ok := ver[k]; ok && v >= pv {
				delete(cur, k)
				delete(ver, k)
			}
		default:
			// applies to an absent key (membership may flip back at the same version) or moves the version forward
			if pv, ok := ver[k]; !ok || v > pv {
				cur[k], ver[k] = obj, v
			}
		}
	}
	var ss []string
	for _, v := range cur {
		ss = append(ss, v)
	}
	sort.Strings(ss)
	return "[" + strings.Join(ss, " ") + "]"
}
