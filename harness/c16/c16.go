// Package c16: monitor callbacks - initialize once first, then one callback
// per event, serially; nothing after Done(); nothing at all if the publisher
// shuts down before becoming ready.  Seam: publisher-level root + NewMonitor
// (untyped and typed pod) with a recording handler whose callbacks take an
// arbitrary amount of (scheduler) time.
package c16

import (
	"fmt"
	"strings"
	"time"

	"github.com/boz/kcache"
	"github.com/boz/kcache/filter"
	"github.com/boz/kcache/types/pod"
	corev1 "k8s.io/api/core/v1"
	metav1 "k8s.io/apimachinery/pkg/apis/meta/v1"

	"verif/explore"
	"verif/harness/hx"
	"verif/runner"
	"verif/vs"
)

type cfg struct {
	Statement bool // the handler builder is used statement by statement (b.OnCreate(..); b.OnUpdate(..); b.Create()), not as one chain
	OnClone   bool // the monitor is created on a filter clone (CloneWithFilter(Null)) of the root, not on the root
	Reuse     bool // a second untyped monitor whose handler comes from the SAME builder with replaced callbacks
	Upd2      bool // the stream is two updates of one object, then its delete (a lagging handler has both updates queued)
	Unitary   bool // typed: a unitary handler (OnInitialize gets the one object) adapted by ToUnitary
	SlowInit  bool // OnInitialize returns only after the whole stream has been published and queued behind it
	Partial   bool // the handler registers OnCreate and OnUpdate only (no OnInitialize, no OnDelete)
	Foreign   bool // the cache holds an object of another type at readiness (typed monitors must skip it, not give up)
	Typed     bool
	K         int    // events published
	CloseAt   int    // -1: never; k: the closer acts after k events have been published (0 = before the first); 99 = before the parent is ready
	Closer    string // "monitor" (Monitor.Close) | "root" (publisher shuts down)
	Mode      string
	Bound     int
}

func (c cfg) name() string {
	t := "untyped"
	if c.Typed {
		t = "typed"
	}
	if c.Foreign {
		t += "+foreign"
	}
	if c.Upd2 {
		t += "+two-updates"
	}
	if c.Partial {
		t += "+partial-handler"
	}
	if c.SlowInit {
		t += "+slow-initialize"
	}
	if c.Unitary {
		t += "+unitary-handler"
	}
	if c.OnClone {
		t += "+on-filter-clone"
	}
	if c.Statement {
		t += "+builder-statements"
	}
	if c.Reuse {
		t += "+builder-reused"
	}
	return fmt.Sprintf("c16/%s/K%d/close=%s@%d/%s%d", t, c.K, c.Closer, c.CloseAt, c.Mode, c.Bound)
}

type inst struct {
	c         cfg
	root      *hx.Root
	log       []string // callback log: enter/exit records
	doneSeen  bool
	lateStart []string
	lateRun   []string
	other     []string // callbacks of the second monitor (builder reuse)
	monErr    error
	finished  bool
	initial   []metav1.Object
}

// longEvents: 120 events (more than the library's buffer) alternating between two objects.
func longEvents() []kcache.Event {
	var out []kcache.Event
	for i := 0; i < 120; i++ {
		rv := fmt.Sprint(i + 2)
		switch {
		case i%2 == 0:
			out = append(out, kcache.NewEvent(kcache.EventTypeUpdate, hx.Pod("ns", "a", rv, "l=1")))
		case i == 1:
			out = append(out, kcache.NewEvent(kcache.EventTypeCreate, hx.Pod("ns", "b", rv, "l=1")))
		default:
			out = append(out, kcache.NewEvent(kcache.EventTypeUpdate, hx.Pod("ns", "b", rv, "l=1")))
		}
	}
	return out
}

func events(upd2 bool) []kcache.Event {
	if upd2 {
		return []kcache.Event{
			kcache.NewEvent(kcache.EventTypeUpdate, hx.Pod("ns", "a", "2", "l=1")),
			kcache.NewEvent(kcache.EventTypeUpdate, hx.Pod("ns", "a", "3", "l=1")),
			kcache.NewEvent(kcache.EventTypeDelete, hx.Pod("ns", "a", "4", "l=1")),
		}
	}
	return []kcache.Event{
		kcache.NewEvent(kcache.EventTypeUpdate, hx.Pod("ns", "a", "2", "l=1")),
		kcache.NewEvent(kcache.EventTypeCreate, hx.Pod("ns", "b", "3", "l=1")),
		kcache.NewEvent(kcache.EventTypeDelete, hx.Pod("ns", "a", "4", "l=1")),
	}
}

func (in *inst) cb(kind string, arg string) {
	if in.doneSeen {
		in.lateStart = append(in.lateStart, kind+":"+arg)
	}
	vs.Note(btou(in.doneSeen))
	in.log = append(in.log, "enter "+kind+":"+arg)
	if in.c.SlowInit && kind == "init" {
		vs.SleepIdle(time.Second) // until nothing else can move: the stream is queued behind this callback
	}
	vs.Step(7) // the handler takes some time: anything may happen meanwhile
	if in.doneSeen && len(in.lateStart) == 0 {
		// it started before Done() closed and is still running after
		in.lateRun = append(in.lateRun, kind+":"+arg)
	}
	vs.Note(btou(in.doneSeen))
	in.log = append(in.log, "exit "+kind+":"+arg)
}

func btou(b bool) uint64 {
	if b {
		return 1
	}
	return 0
}

func (in *inst) run() {
	c := in.c
	in.root = hx.NewRoot(filter.Null())
	in.initial = []metav1.Object{hx.Pod("ns", "a", "1", "l=1")}
	if c.Foreign {
		in.initial = append(in.initial, &corev1.Service{ObjectMeta: metav1.ObjectMeta{Namespace: "ns", Name: "foreign", ResourceVersion: "1"}})
	}
	var mon kcache.Monitor
	var err error
	if c.Typed {
		pc := pod.VNewController(in.root.Pub)
		h := pod.BuildHandler().
			OnInitialize(func(l []*corev1.Pod) {
				var ml []metav1.Object
				for _, p := range l {
					ml = append(ml, p)
				}
				in.cb("init", hx.ListString(ml))
			}).
			OnCreate(func(p *corev1.Pod) { in.cb("create", hx.ObjString(p)) }).
			OnUpdate(func(p *corev1.Pod) { in.cb("update", hx.ObjString(p)) }).
			OnDelete(func(p *corev1.Pod) { in.cb("delete", hx.ObjString(p)) }).Create()
		if c.Partial {
			h = pod.BuildHandler().
				OnCreate(func(p *corev1.Pod) { in.cb("create", hx.ObjString(p)) }).
				OnUpdate(func(p *corev1.Pod) { in.cb("update", hx.ObjString(p)) }).Create()
		}
		if c.Unitary {
			h = pod.ToUnitary(hx.Log, pod.BuildUnitaryHandler().
				OnInitialize(func(p *corev1.Pod) { in.cb("init", hx.ListString([]metav1.Object{p})) }).
				OnCreate(func(p *corev1.Pod) { in.cb("create", hx.ObjString(p)) }).
				OnUpdate(func(p *corev1.Pod) { in.cb("update", hx.ObjString(p)) }).
				OnDelete(func(p *corev1.Pod) { in.cb("delete", hx.ObjString(p)) }).Create())
		}
		if c.Statement {
			b := pod.BuildHandler()
			b.OnInitialize(func(l []*corev1.Pod) {
				var ml []metav1.Object
				for _, p := range l {
					ml = append(ml, p)
				}
				in.cb("init", hx.ListString(ml))
			})
			b.OnCreate(func(p *corev1.Pod) { in.cb("create", hx.ObjString(p)) })
			b.OnUpdate(func(p *corev1.Pod) { in.cb("update", hx.ObjString(p)) })
			b.OnDelete(func(p *corev1.Pod) { in.cb("delete", hx.ObjString(p)) })
			h = b.Create()
		}
		mon, err = pod.NewMonitor(pc, h)
	} else if c.Statement {
		b := kcache.BuildHandler()
		b.OnInitialize(func(l []metav1.Object) { in.cb("init", hx.ListString(l)) })
		b.OnCreate(func(o metav1.Object) { in.cb("create", hx.ObjString(o)) })
		b.OnUpdate(func(o metav1.Object) { in.cb("update", hx.ObjString(o)) })
		b.OnDelete(func(o metav1.Object) { in.cb("delete", hx.ObjString(o)) })
		mon, err = kcache.NewMonitor(in.root.Pub, b.Create())
	} else {
		var pub kcache.Publisher = in.root.Pub
		if c.OnClone {
			fc, cerr := in.root.Pub.CloneWithFilter(filter.Null())
			if cerr != nil {
				in.monErr = cerr
				return
			}
			pub = fc
		}
		hb := kcache.BuildHandler().
			OnInitialize(func(l []metav1.Object) { in.cb("init", hx.ListString(l)) }).
			OnCreate(func(o metav1.Object) { in.cb("create", hx.ObjString(o)) }).
			OnUpdate(func(o metav1.Object) { in.cb("update", hx.ObjString(o)) }).
			OnDelete(func(o metav1.Object) { in.cb("delete", hx.ObjString(o)) })
		h := hb.Create()
		if c.Partial {
			h = kcache.BuildHandler().
				OnCreate(func(o metav1.Object) { in.cb("create", hx.ObjString(o)) }).
				OnUpdate(func(o metav1.Object) { in.cb("update", hx.ObjString(o)) }).Create()
		}
		if c.Reuse {
			// the builder is used again for another handler: the first one keeps its own callbacks
			rec := func(k string) func(metav1.Object) {
				return func(o metav1.Object) { in.other = append(in.other, k+":"+hx.ObjString(o)) }
			}
			h2 := hb.OnInitialize(func(l []metav1.Object) { in.other = append(in.other, "init:"+hx.ListString(l)) }).
				OnCreate(rec("create")).OnUpdate(rec("update")).OnDelete(rec("delete")).Create()
			if _, err2 := kcache.NewMonitor(pub, h2); err2 != nil {
				in.monErr = err2
				return
			}
		}
		mon, err = kcache.NewMonitor(pub, h)
	}
	in.monErr = err
	if err != nil {
		return
	}
	// observer of Done(): raises the flag no callback may start after
	go func() {
		<-mon.Done()
		in.doneSeen = true
		vs.Note(1)
	}()
	closer := func() {
		if c.Closer == "monitor" {
			mon.Close()
		} else {
			in.root.Stop()
		}
	}
	if c.CloseAt == 99 {
		closer()
		if c.Closer == "root" {
			// the publisher shuts down without ever becoming ready (a controller only closes its ready
			// channel after the first list has been applied, which never happens here)
			in.finished = true
			return
		}
	}
	in.root.Init(in.initial)
	var evs []kcache.Event
	if c.K > 3 {
		evs = longEvents()[:c.K]
	} else {
		evs = events(c.Upd2)[:c.K]
	}
	for i := 0; i <= len(evs); i++ {
		if c.CloseAt == i {
			go closer() // concurrently with the rest of the stream
		}
		if i < len(evs) {
			in.root.Publish(evs[i])
			if c.K > 3 {
				vs.SleepIdle(1) // a handler that keeps up: one event at a time
			}
		}
	}
	in.finished = true
}

func (in *inst) check(r *vs.Result) []string {
	var msgs []string
	c := in.c
	if in.monErr != nil {
		return []string{fmt.Sprintf("NewMonitor failed | %v", in.monErr)}
	}
	if !in.finished {
		return []string{fmt.Sprintf("publisher blocked | the publishing driver did not finish (log %v)", in.log)}
	}
	// serial: enter/exit strictly alternate
	var calls []string
	for i, l := range in.log {
		if i%2 == 0 {
			if !strings.HasPrefix(l, "enter ") {
				msgs = append(msgs, fmt.Sprintf("callbacks overlap | log %v", in.log))
				break
			}
			calls = append(calls, strings.TrimPrefix(l, "enter "))
		} else if l != "exit "+strings.TrimPrefix(in.log[i-1], "enter ") {
			msgs = append(msgs, fmt.Sprintf("callbacks overlap | log %v", in.log))
			break
		}
	}
	if c.Reuse {
		// the second monitor's handler saw the whole stream too, each callback once
		var oc []string
		for _, x := range in.other {
			if !strings.HasPrefix(x, "init:") {
				oc = append(oc, x)
			}
		}
		if strings.Join(oc, " ") != strings.Join(in.root.Published, " ") {
			msgs = append(msgs, fmt.Sprintf("handlers built from one builder interfere | the second monitor's handler received %v, published %v; the first one's log %v", in.other, in.root.Published, in.log))
		}
	}
	if len(in.lateRun) > 0 {
		msgs = append(msgs, fmt.Sprintf("callback still running after Done | callbacks %v were in progress when the monitor's Done() closed", in.lateRun))
	}
	if len(in.lateStart) > 0 {
		msgs = append(msgs, fmt.Sprintf("callback after Done | callbacks %v started after the monitor's Done() had closed", in.lateStart))
	}
	if c.CloseAt == 99 {
		if c.Closer == "root" && len(calls) > 0 {
			msgs = append(msgs, fmt.Sprintf("callbacks although publisher shut down before ready | %v", calls))
		}
	}
	if c.Partial {
		// only the registered callbacks run, one per matching event, nothing for the content at readiness
		var want []string
		for _, e := range in.root.Published {
			if !strings.HasPrefix(e, "delete:") {
				want = append(want, e)
			}
		}
		if strings.Join(calls, " ") != strings.Join(want, " ") {
			msgs = append(msgs, fmt.Sprintf("callbacks do not match the delivered events | a handler with OnCreate and OnUpdate only was called %v, published %v", calls, in.root.Published))
		}
		return msgs
	}
	ninit := 0
	for i, cl := range calls {
		if strings.HasPrefix(cl, "init:") {
			ninit++
			if i != 0 {
				msgs = append(msgs, fmt.Sprintf("OnInitialize not first | calls %v", calls))
			}
		}
	}
	if ninit > 1 {
		msgs = append(msgs, fmt.Sprintf("OnInitialize more than once | calls %v", calls))
	}
	if c.Unitary && ninit == 0 {
		// the unitary adapter passes the content at readiness on only when it is exactly one object: no OnInitialize
		// is legitimate iff the cache held another number of objects of the type at some instant since readiness
		other := false
		for k := 0; k <= len(in.root.Published); k++ {
			content, _ := hx.Mirror(in.initial, in.root.Published[:k])
			n := 0
			for _, o := range strings.Fields(strings.Trim(content, "[]")) {
				if !strings.HasPrefix(o, "ns/foreign@") {
					n++
				}
			}
			if n != 1 {
				other = true
			}
		}
		if !other {
			msgs = append(msgs, fmt.Sprintf("no OnInitialize although the publisher became ready | unitary handler, the cache held exactly one object of the type all the time; calls %v", calls))
		}
		if strings.Join(calls, " ") != strings.Join(in.root.Published, " ") {
			msgs = append(msgs, fmt.Sprintf("callbacks do not match the delivered events | unitary handler: callbacks %v, published %v", calls, in.root.Published))
		}
		return msgs
	}
	if len(calls) > 0 && ninit == 0 {
		msgs = append(msgs, fmt.Sprintf("event callback without OnInitialize | calls %v", calls))
	}
	pub := in.root.Published
	if ninit == 1 {
		// the argument of OnInitialize is a cache content that existed at or after readiness
		arg := strings.TrimPrefix(calls[0], "init:")
		ok := false
		var cands []string
		for k := 0; k <= len(pub); k++ {
			content, _ := hx.Mirror(in.initial, pub[:k])
			if c.Typed {
				// a typed monitor sees the content restricted to its type
				var keep []string
				for _, o := range strings.Fields(strings.Trim(content, "[]")) {
					if !strings.HasPrefix(o, "ns/foreign@") {
						keep = append(keep, o)
					}
				}
				content = "[" + strings.Join(keep, " ") + "]"
			}
			cands = append(cands, content)
			if content == arg {
				ok = true
			}
		}
		if !ok {
			msgs = append(msgs, fmt.Sprintf("OnInitialize argument is not a cache content | got %s, contents since readiness %v", arg, cands))
		}
		// the later callbacks are a contiguous run of the published sequence, complete if nobody closed anything
		rest := calls[1:]
		found := false
		for i := 0; i+len(rest) <= len(pub) && !found; i++ {
			if strings.Join(pub[i:i+len(rest)], " ") == strings.Join(rest, " ") {
				// (a monitor on the root subscribed before the first event: with nothing closed it is called for every one
				// of them; a filter clone may have absorbed the first events into its content at readiness)
				if c.CloseAt >= 0 || (i == 0 && len(rest) == len(pub)) || (c.OnClone && i+len(rest) == len(pub)) {
					found = true
				}
			}
		}
		if len(rest) == 0 && (c.CloseAt >= 0 || len(pub) == 0) {
			found = true
		}
		if !found {
			msgs = append(msgs, fmt.Sprintf("callbacks do not match the delivered events | callbacks %v, published %v (close %s@%d)", rest, pub, c.Closer, c.CloseAt))
		}
	} else if c.CloseAt < 0 {
		msgs = append(msgs, fmt.Sprintf("no OnInitialize although the publisher became ready | calls %v", calls))
	}
	if c.CloseAt >= 0 && !in.doneSeen {
		msgs = append(msgs, fmt.Sprintf("monitor never done | after %s close@%d the monitor's Done() did not close; blocked %d goroutines", c.Closer, c.CloseAt, len(r.Blocked)))
	}
	return msgs
}

func (in *inst) outcome() string { return strings.Join(in.log, ",") + fmt.Sprint(in.doneSeen) }

func scenario(c cfg) runner.Sc {
	return runner.Sc{
		Scenario: explore.Scenario{
			Name: c.name(), Mode: c.Mode, Bound: c.Bound,
			Cfg: vs.Config{MaxSteps: 100000},
			New: func() explore.Instance {
				in := &inst{c: c}
				return explore.Instance{Run: in.run, Check: in.check, Outcome: in.outcome}
			},
		},
		Split: true,
	}
}

func Property() runner.Property {
	return runner.Property{
		ID:          "C16",
		Level:       "model_checking",
		Rule:        "publisher-level root + NewMonitor (untyped, and typed pod through the real typed wrapper) with a recording handler whose every callback contains a scheduling point (handler slower than the producer = the scheduler delays it); event sequences of length <= 3 over all three event types; Monitor.Close / publisher shutdown at every position of the stream including before readiness; all interleavings (S1) for K<=2, deviation-bounded (S2) for K=3; oracle on the callback log: OnInitialize at most once and first with a cache content that existed since readiness, later callbacks are a contiguous run of the published events (all of them from the first when nothing is closed and the monitor sits on the root), a handler with OnCreate/OnUpdate only is called for exactly the matching events, an OnInitialize slower than the whole stream loses none of it, enter/exit never overlap, no callback starts after Done() was observed, none at all when the publisher shuts down before ready, Done() closes after a close",
		Assumptions: []string{"K <= buffer size (a slow handler never causes a legitimate overflow drop)"},
		Scenarios: func(tier string) []runner.Sc {
			var out []runner.Sc
			for _, typed := range []bool{false, true} {
				out = append(out, scenario(cfg{Typed: typed, K: 2, CloseAt: -1, Closer: "none", Mode: "S1"}))
				for _, closer := range []string{"monitor", "root"} {
					for _, at := range []int{99, 0, 1, 2} {
						out = append(out, scenario(cfg{Typed: typed, K: 2, CloseAt: at, Closer: closer, Mode: "S1"}))
					}
				}
				out = append(out, scenario(cfg{Typed: typed, K: 3, CloseAt: -1, Closer: "none", Mode: "S2", Bound: 3}))
				out = append(out, scenario(cfg{Typed: typed, Foreign: true, K: 2, CloseAt: -1, Closer: "none", Mode: "S2", Bound: 3}))
				out = append(out, scenario(cfg{Typed: typed, Upd2: true, K: 3, CloseAt: -1, Closer: "none", Mode: "S2", Bound: 2}))
				out = append(out, scenario(cfg{Typed: typed, Upd2: true, SlowInit: true, K: 3, CloseAt: -1, Closer: "none", Mode: "S2", Bound: 1}))
				out = append(out, scenario(cfg{Typed: typed, SlowInit: true, K: 3, CloseAt: -1, Closer: "none", Mode: "S2", Bound: 1}))
				// a long stream on the default schedule: nothing depends on how many callbacks there have been
				out = append(out, scenario(cfg{Typed: typed, K: 120, CloseAt: -1, Closer: "none", Mode: "D0"}))
				if typed {
					// the unitary adapter (the cache holds exactly one object of the type at readiness)
					out = append(out, scenario(cfg{Typed: true, Unitary: true, K: 3, CloseAt: -1, Closer: "none", Mode: "S2", Bound: 2}))
					out = append(out, scenario(cfg{Typed: true, Unitary: true, Foreign: true, Upd2: true, K: 2, CloseAt: -1, Closer: "none", Mode: "S2", Bound: 2}))
				}
				out = append(out, scenario(cfg{Typed: typed, Partial: true, K: 3, CloseAt: -1, Closer: "none", Mode: "S2", Bound: 1}))
				out = append(out, scenario(cfg{Typed: typed, Statement: true, K: 2, CloseAt: -1, Closer: "none", Mode: "S2", Bound: 1}))
				if !typed {
					out = append(out, scenario(cfg{Reuse: true, K: 2, CloseAt: -1, Closer: "none", Mode: "S2", Bound: 2}))
					// a monitor on a filter clone of a publisher that shuts down before it is ready: no callback at all
					out = append(out, scenario(cfg{OnClone: true, K: 2, CloseAt: 99, Closer: "root", Mode: "S2", Bound: 3}))
					out = append(out, scenario(cfg{OnClone: true, K: 2, CloseAt: -1, Closer: "none", Mode: "S2", Bound: 2}))
				}
			}
			if tier == "thorough" {
				for _, typed := range []bool{false, true} {
					out = append(out, scenario(cfg{Typed: typed, K: 3, CloseAt: -1, Closer: "none", Mode: "S1"}))
					for _, closer := range []string{"monitor", "root"} {
						for _, at := range []int{0, 1, 2, 3} {
							out = append(out, scenario(cfg{Typed: typed, K: 3, CloseAt: at, Closer: closer, Mode: "S1"}))
						}
					}
				}
			}
			return out
		},
	}
}
