package main

import (
	"verif/runner"
	"verif/seq/filters"
)

func main() { runner.Main(filters.C17()) }
