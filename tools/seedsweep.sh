#!/bin/bash
# runs every seeded change (and every own mutant with a known target) against the check of its property; prints one line each
cd /verif
for d in seeded/*/; do
  id=$(basename $d); prop=${id%%-*}
  out=$(tools/seedcheck.sh /verif/$d/patch.diff $prop 2>&1)
  if echo "$out" | grep -q "rc=1"; then echo "$id caught by $prop"; else echo "$id MISSED by $prop: $(echo "$out" | head -2 | tr '\n' ' ' | cut -c1-200)"; fi
done
