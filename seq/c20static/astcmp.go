package c20static

import (
	"bytes"
	"fmt"
	"go/ast"
	"go/printer"
	"go/token"
	"path"
	"reflect"
	"strconv"
	"strings"
)

var (
	posType   = reflect.TypeOf(token.Pos(0))
	objType   = reflect.TypeOf((*ast.Object)(nil))
	scopeType = reflect.TypeOf((*ast.Scope)(nil))
	cgType    = reflect.TypeOf((*ast.CommentGroup)(nil))
)

// astDiffer compares two syntax trees structurally. Positions, comments,
// resolved objects and scopes are ignored; the only position-encoded facts that
// are kept are "call has ..." (CallExpr.Ellipsis) and "type alias" (TypeSpec.Assign).
type astDiffer struct {
	fa, fb *token.FileSet
	n      int64 // nodes visited
}

func render(fset *token.FileSet, v reflect.Value) string {
	if !v.IsValid() {
		return "<none>"
	}
	if (v.Kind() == reflect.Ptr || v.Kind() == reflect.Interface || v.Kind() == reflect.Slice) && v.IsNil() {
		return "<nil>"
	}
	if v.CanInterface() {
		if n, ok := v.Interface().(ast.Node); ok {
			return renderNode(fset, n)
		}
	}
	if v.Kind() == reflect.Slice {
		return fmt.Sprintf("<%d elements>", v.Len())
	}
	return fmt.Sprintf("%v", v.Interface())
}

func renderNode(fset *token.FileSet, n ast.Node) string {
	var buf bytes.Buffer
	if fset == nil {
		fset = token.NewFileSet()
	}
	if err := printer.Fprint(&buf, fset, n); err != nil {
		return fmt.Sprintf("<%T>", n)
	}
	s := strings.Join(strings.Fields(buf.String()), " ")
	if len(s) > 160 {
		s = s[:157] + "..."
	}
	return s
}

// diff returns "" when a and b are equal, otherwise a description of the first difference.
func (d *astDiffer) diff(where string, a, b reflect.Value) string {
	d.n++
	if a.Type() != b.Type() {
		return fmt.Sprintf("%s: %s vs %s", where, a.Type(), b.Type())
	}
	t := a.Type()
	switch t {
	case posType, objType, scopeType, cgType:
		return ""
	}
	switch a.Kind() {
	case reflect.Interface:
		if a.IsNil() || b.IsNil() {
			if a.IsNil() != b.IsNil() {
				return fmt.Sprintf("%s: template has %s, generated has %s", where, render(d.fa, a), render(d.fb, b))
			}
			return ""
		}
		if a.Elem().Type() != b.Elem().Type() {
			return fmt.Sprintf("%s: template has %s, generated has %s", where, render(d.fa, a), render(d.fb, b))
		}
		return d.diff(where, a.Elem(), b.Elem())
	case reflect.Ptr:
		if a.IsNil() || b.IsNil() {
			if a.IsNil() != b.IsNil() {
				return fmt.Sprintf("%s: template has %s, generated has %s", where, render(d.fa, a), render(d.fb, b))
			}
			return ""
		}
		return d.diff(where, a.Elem(), b.Elem())
	case reflect.Struct:
		for i := 0; i < t.NumField(); i++ {
			f := t.Field(i)
			if f.Type == posType {
				if (t.Name() == "CallExpr" && f.Name == "Ellipsis") || (t.Name() == "TypeSpec" && f.Name == "Assign") {
					if a.Field(i).Interface().(token.Pos).IsValid() != b.Field(i).Interface().(token.Pos).IsValid() {
						return fmt.Sprintf("%s.%s: presence of %q differs", where, t.Name(), f.Name)
					}
				}
				continue
			}
			if f.Name == "Doc" || f.Name == "Comment" || f.Name == "Comments" {
				continue
			}
			if r := d.diff(where+"."+f.Name, a.Field(i), b.Field(i)); r != "" {
				// prefer a readable rendering at the smallest enclosing expression/statement
				return r
			}
		}
		return ""
	case reflect.Slice:
		if a.Len() != b.Len() {
			return fmt.Sprintf("%s: %d vs %d elements (template %s / generated %s)", where, a.Len(), b.Len(), render(d.fa, a), render(d.fb, b))
		}
		for i := 0; i < a.Len(); i++ {
			if r := d.diff(where+"["+strconv.Itoa(i)+"]", a.Index(i), b.Index(i)); r != "" {
				return r
			}
		}
		return ""
	case reflect.String:
		if a.String() != b.String() {
			return fmt.Sprintf("%s: %q vs %q", where, a.String(), b.String())
		}
		return ""
	case reflect.Bool:
		if a.Bool() != b.Bool() {
			return fmt.Sprintf("%s: %v vs %v", where, a.Bool(), b.Bool())
		}
		return ""
	case reflect.Int, reflect.Int8, reflect.Int16, reflect.Int32, reflect.Int64:
		if a.Int() != b.Int() {
			return fmt.Sprintf("%s: %v vs %v", where, a.Interface(), b.Interface())
		}
		return ""
	case reflect.Map:
		return "" // only ast.Scope/Package carry maps; never reached for declarations
	}
	return fmt.Sprintf("%s: unsupported kind %s", where, a.Kind())
}

// declKey names a top-level declaration stably: "func (*cache) Get", "type Event", "var ErrInvalidType,adapter".
func declKey(d ast.Decl) string {
	switch x := d.(type) {
	case *ast.FuncDecl:
		if x.Recv != nil && len(x.Recv.List) > 0 {
			return "func (" + typeString(x.Recv.List[0].Type) + ") " + x.Name.Name
		}
		return "func " + x.Name.Name
	case *ast.GenDecl:
		var names []string
		for _, s := range x.Specs {
			switch sp := s.(type) {
			case *ast.TypeSpec:
				names = append(names, sp.Name.Name)
			case *ast.ValueSpec:
				for _, n := range sp.Names {
					names = append(names, n.Name)
				}
			case *ast.ImportSpec:
				names = append(names, sp.Path.Value)
			}
		}
		return x.Tok.String() + " " + strings.Join(names, ",")
	}
	return fmt.Sprintf("%T", d)
}

func typeString(e ast.Expr) string {
	switch x := e.(type) {
	case *ast.Ident:
		return x.Name
	case *ast.StarExpr:
		return "*" + typeString(x.X)
	case *ast.SelectorExpr:
		return typeString(x.X) + "." + x.Sel.Name
	case *ast.ParenExpr:
		return typeString(x.X)
	}
	return fmt.Sprintf("%T", e)
}

type keyedDecl struct {
	key  string
	decl ast.Decl
}

// nonImportDecls returns the top-level declarations other than imports, each
// with a unique key (a repeated key gets "#2", "#3", ...).
func nonImportDecls(f *ast.File) []keyedDecl {
	var out []keyedDecl
	seen := map[string]int{}
	for _, d := range f.Decls {
		if g, ok := d.(*ast.GenDecl); ok && g.Tok == token.IMPORT {
			continue
		}
		k := declKey(d)
		seen[k]++
		if seen[k] > 1 {
			k += "#" + strconv.Itoa(seen[k])
		}
		out = append(out, keyedDecl{k, d})
	}
	return out
}

// importBindings maps the name an import is bound to in the file to its path.
func importBindings(f *ast.File) map[string]string {
	m := map[string]string{}
	for _, im := range f.Imports {
		p, err := strconv.Unquote(im.Path.Value)
		if err != nil {
			p = im.Path.Value
		}
		name := path.Base(p)
		if im.Name != nil {
			name = im.Name.Name
		}
		m[name] = p
	}
	return m
}

// declMismatch is one difference between the expected and the actual file.
type declMismatch struct {
	key  string // declaration key, or "package clause", "declaration order", "import <name>"
	what string // short stable description
	msg  string // precise description
}

// compareFiles compares want (template instance) with got (generated file):
// package clause, every non-import top-level declaration by key, and their order.
// It returns the number of declarations found equal, the comparisons made, and the mismatches.
func compareFiles(want, got *ast.File, fw, fg *token.FileSet) (equal int, comparisons int64, mm []declMismatch) {
	comparisons++
	if want.Name.Name != got.Name.Name {
		mm = append(mm, declMismatch{"package clause", "differs from template", fmt.Sprintf("package clause: template instance says %q, generated file says %q", want.Name.Name, got.Name.Name)})
	}
	wd, gd := nonImportDecls(want), nonImportDecls(got)
	gidx := map[string]int{}
	for i, k := range gd {
		gidx[k.key] = i
	}
	matched := map[string]bool{}
	var wOrder, gOrder []string
	for _, w := range wd {
		comparisons++
		gi, ok := gidx[w.key]
		if !ok {
			mm = append(mm, declMismatch{w.key, "missing in generated file", fmt.Sprintf("declaration %q of the template instance is missing in the generated file (template: %s)", w.key, renderNode(fw, w.decl))})
			continue
		}
		matched[w.key] = true
		wOrder = append(wOrder, w.key)
		d := &astDiffer{fa: fw, fb: fg}
		if r := d.diff("", reflect.ValueOf(w.decl), reflect.ValueOf(gd[gi].decl)); r != "" {
			mm = append(mm, declMismatch{w.key, "differs from template", fmt.Sprintf("declaration %q differs at %s; template instance: %s; generated: %s", w.key, strings.TrimPrefix(r, "."), renderNode(fw, w.decl), renderNode(fg, gd[gi].decl))})
			continue
		}
		equal++
	}
	for _, g := range gd {
		if matched[g.key] {
			gOrder = append(gOrder, g.key)
			continue
		}
		comparisons++
		mm = append(mm, declMismatch{g.key, "not produced by template", fmt.Sprintf("generated file declares %q which the template instance does not contain (generated: %s)", g.key, renderNode(fg, g.decl))})
	}
	comparisons++
	for i := range wOrder {
		if wOrder[i] != gOrder[i] {
			mm = append(mm, declMismatch{"declaration order", "differs from template", fmt.Sprintf("declaration order differs from the template: position %d holds %q in the template instance and %q in the generated file", i, wOrder[i], gOrder[i])})
			break
		}
	}
	return equal, comparisons, mm
}

// compareImports checks that every import of the generated file binds a name
// to the path the generator inputs bind it to (template imports and the
// package's fiximport.go, which is what goimports resolves the names from).
// Import sets and ordering are not compared: unused template imports are
// dropped and missing ones added by goimports.
func compareImports(got *ast.File, allowed map[string]string) (comparisons int64, mm []declMismatch) {
	gb := importBindings(got)
	unaliased := map[string]bool{}
	for _, im := range got.Imports {
		if im.Name == nil {
			if p, err := strconv.Unquote(im.Path.Value); err == nil {
				unaliased[path.Base(p)] = true
			}
		}
	}
	allowedPaths := map[string]bool{}
	for _, p := range allowed {
		allowedPaths[p] = true
	}
	names := make([]string, 0, len(gb))
	for n := range gb {
		names = append(names, n)
	}
	sortStrings(names)
	for _, n := range names {
		comparisons++
		p, ok := allowed[n]
		switch {
		case unaliased[n] && allowedPaths[gb[n]]:
			// an import without alias binds the package's own name (which syntax
			// alone cannot tell, e.g. "github.com/boz/go-logutil" is package
			// logutil); it is consistent as soon as the generator inputs import
			// the same path (older goimports versions did not write the alias).
		case !ok:
			mm = append(mm, declMismatch{"import " + n, "is bound by neither template nor fiximport.go", fmt.Sprintf("generated file imports %s %q, a name that neither the template nor the package's fiximport.go binds", n, gb[n])})
		case p != gb[n]:
			mm = append(mm, declMismatch{"import " + n, "bound to a different path", fmt.Sprintf("generated file binds %s to %q, generator inputs bind it to %q", n, gb[n], p)})
		}
	}
	return comparisons, mm
}

func sortStrings(s []string) {
	for i := 1; i < len(s); i++ {
		for j := i; j > 0 && s[j] < s[j-1]; j-- {
			s[j], s[j-1] = s[j-1], s[j]
		}
	}
}
