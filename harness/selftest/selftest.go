// Package selftest: small programs with known state counts / known bugs that
// validate the scheduler, the fingerprints and the explorers.
package selftest

import (
	"fmt"

	"verif/explore"
	"verif/runner"
	"verif/vs"
)

// indep: k goroutines, each doing m sends into its own buffered channel: (m+1)^k states.
func indep(k, m int) explore.Scenario {
	return explore.Scenario{
		Name: fmt.Sprintf("selftest/indep/k%d/m%d", k, m), Mode: "S1",
		New: func() explore.Instance {
			done := 0
			return explore.Instance{
				Run: func() {
					fin := make(chan bool, k)
					for i := 0; i < k; i++ {
						go func() {
							ch := make(chan int, m+1)
							for j := 0; j < m; j++ {
								ch <- j
							}
							fin <- true
						}()
					}
					for i := 0; i < k; i++ {
						<-fin
						done++
					}
				},
				Check:   func(r *vs.Result) []string { if done != k { return []string{"hang"} }; return nil },
				Outcome: func() string { return fmt.Sprint(done) },
			}
		},
	}
}

func Property() runner.Property {
	return runner.Property{
		ID: "SELFTEST", Level: "model_checking", Rule: "engine self tests",
		Scenarios: func(tier string) []runner.Sc {
			return []runner.Sc{
				{Scenario: indep(2, 3)},
				{Scenario: indep(3, 3)},
			}
		},
	}
}
