#!/bin/bash
# tools/seedcheck.sh <patch.diff> <ID> [<ID>...]: tries a candidate change against the given checks (quick tier, or
# $TIER) and prints one line per check.  The change is applied to a scratch worktree of /repo's HEAD and laid over
# /repo through the source overlay (VERIF_MUT_DIR, see vbuild.sh): /repo itself is not touched, so several of these
# can run at once and alongside other work.  SEEDCHECK_INPLACE=1 applies the patch to /repo itself instead (and
# reverts it), which is what a registered check would see.  Evidence goes to a scratch file.
set -uo pipefail
P=$1; shift
EV=$(mktemp /var/tmp/seedcheck-ev-XXXXXX.json)
if [ -n "${SEEDCHECK_INPLACE:-}" ]; then
  cd /repo || exit 2
  if ! git diff --quiet; then echo "repo dirty"; exit 2; fi
  if ! git apply --check "$P" 2>/dev/null; then echo "patch does not apply: $P"; exit 2; fi
  git apply "$P"
  trap 'git -C /repo checkout -- . ; git -C /repo clean -fdq; rm -f $EV' EXIT
else
  W=$(mktemp -d /var/tmp/mut-XXXXXX); rmdir $W
  git -C /repo worktree add -q --detach $W HEAD || exit 2
  trap 'git -C /repo worktree remove --force $W >/dev/null 2>&1; rm -f $EV' EXIT
  if ! git -C $W apply "$P" 2>/dev/null; then echo "patch does not apply: $P"; exit 2; fi
  if [ -n "$(git -C $W status --short | grep -v '^ M' )" ]; then echo "note: the patch adds or deletes files; use SEEDCHECK_INPLACE=1"; fi
  export VERIF_MUT_DIR=$W
fi
cd /verif
for id in "$@"; do
  out=$(./check $id --tier ${TIER:-quick} -evidence $EV 2>&1)
  rc=$?
  sig=$(echo "$out" | grep -A1 VIOLATION | grep -v VIOLATION | grep -v '^--' | head -2 | cut -c1-330)
  echo "$id rc=$rc $(echo "$out" | grep -E "^$id tier" | sed 's/.*exhaustive/exhaustive/')"
  [ -n "$sig" ] && echo "$sig"
  if [ $rc -eq 2 ]; then echo "$out" | grep -E "ENGINE|error|cannot" | head -5; fi
done
