#!/usr/bin/env python3
"""manifest_add.py ID category "text" "note" "technique" [design_ref]: register a check (idempotent)."""
import json,sys
pid,cat,text,note,tech=sys.argv[1:6]
ref=sys.argv[6] if len(sys.argv)>6 else "DESIGN.md 4 "+pid
m=json.load(open('/verif/MANIFEST.json'))
m['checks']=[c for c in m['checks'] if c['property_id']!=pid]
m['checks'].append({"property_id":pid,"quick_cmd":"./check %s --tier quick"%pid,"thorough_cmd":"./check %s --tier thorough"%pid,
 "evidence_file":"/verif/evidence/%s.json"%pid,"replay_cmd_template":"./check %s --replay {path}"%pid,"engine":"vs+explore",
 "level_claimed":{"category":cat,"text":text,"design_ref":ref},"level_note":note,"technique":tech})
m['checks'].sort(key=lambda c:c['property_id'])
m['not_applicable']=[x for x in m.get('not_applicable',[]) if x['property_id']!=pid]
ids=sorted(c['property_id'] for c in m['checks'])
for e in m['engines']:
    if e['name']=='vs+explore': e['serves_properties']=ids
json.dump(m,open('/verif/MANIFEST.json','w'),indent=1)
