package main

import (
	"verif/harness/c06"
	"verif/runner"
)

func main() { runner.Main(c06.Property("C08")) }
