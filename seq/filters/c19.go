package filters

import (
	"fmt"
	"sort"

	"github.com/boz/kcache/filter"
	corev1 "k8s.io/api/core/v1"
	metav1 "k8s.io/apimachinery/pkg/apis/meta/v1"

	"verif/explore"
	"verif/runner"
)

// C19 — workload selection filters follow Kubernetes ownership semantics.
func C19() runner.Property {
	return runner.Property{
		ID:    "C19",
		Level: "exploration",
		Rule: "exhaustive enumeration: for every set of workloads (quick <= 2, thorough <= 3) of the finite workload universe of each kind and every " +
			"candidate object, the real filter's Accept equals a reference predicate written from the property statement " +
			"(pod accepted iff some given workload in the pod's namespace has a selector - or, lacking one, template labels - matching the pod's labels; " +
			"selector-less service selects nothing; ingress: services named by default backend / rule paths of an ingress in the same namespace; " +
			"node / involved-object / selector-match: direct predicates, other kinds rejected)",
		Assumptions: []string{
			"'lacking a selector': nil for LabelSelector kinds (an empty non-nil LabelSelector matches every pod of the namespace); nil or empty map for replication controllers",
			"template labels 'none' is the empty label set, which (as a label-subset selector) matches every pod of the namespace",
			"pods filters are only judged on pods and the ingress services filter only on services (the statement is silent about other kinds); acceptance of other kinds is counted in coverage",
			"SelectorMatchFilter(target) describes the services with a non-empty selector all of whose entries occur in target",
			"workloads in one set have distinct names; sets are enumerated in one (sorted) order, order independence is C17's business",
		},
		Scenarios: func(string) []runner.Sc { return nil },
		Extra:     c19Extra,
	}
}

// c19Workloads: 2 namespaces x selector universe x template labels {none, {k1:1}}.
func c19Workloads(kind string) []W {
	one, two := map[string]string{K1: "1"}, map[string]string{K1: "1", K2: "1"}
	sels := []*LS{{ML: one}, {ML: two}, nil, {}}
	tmpls := []map[string]string{nil, {K1: "1"}}
	switch {
	case kind == "svc":
		sels = append(sels, &LS{ML: map[string]string{K2: "2"}})
		tmpls = tmpls[:1]
	case !mapKind(kind):
		sels = append(sels,
			&LS{Exprs: []Req{{K2, "In", []string{"1", "2"}}}},
			&LS{Exprs: []Req{{K1, "NotIn", []string{"1"}}}},
			&LS{Exprs: []Req{{K2, "Exists", nil}}},
			&LS{ML: map[string]string{K1: "2"}, Exprs: []Req{{K2, "DoesNotExist", nil}}})
	}
	// names repeat across the two namespaces (a/w3 and b/w3 are different workloads)
	var out []W
	for _, ns := range []string{"a", "b"} {
		i := 0
		for _, s := range sels {
			for _, t := range tmpls {
				out = append(out, W{NS: ns, Name: fmt.Sprintf("w%d", i), Sel: s, Tmpl: t})
				i++
			}
		}
	}
	return out
}

// combos calls fn for every index set of size <= max over [0,n), smaller sets first.
func combos(n, max int, fn func(ix []int)) {
	var rec func(size, from int, cur []int)
	rec = func(size, from int, cur []int) {
		if len(cur) == size {
			fn(append([]int(nil), cur...))
			return
		}
		for i := from; i < n; i++ {
			rec(size, i+1, append(cur, i))
		}
	}
	for size := 0; size <= max; size++ {
		rec(size, 0, nil)
	}
}

// The seed is ignored: the enumeration is small and always runs in the same order.
func c19Extra(tier string, _ int64) *runner.ExtraResult {
	max := 2
	if tier == "thorough" {
		max = 3
	}
	res := &runner.ExtraResult{Name: "c19 workload filters vs ownership reference predicate", Coverage: map[string]interface{}{}, Complete: true}
	cov := res.Coverage
	var fs foundSet
	var rank, evals, pairs, accepted, filters int64
	distinct := map[string]struct{}{}
	sub := map[string]interface{}{}
	sample := func(m map[string]interface{}) {
		if len(res.Samples) < 12 {
			res.Samples = append(res.Samples, m)
		}
	}

	// run judges one real filter against the reference on every candidate object.
	// classify names the failing input class (stable, argument-free).
	run := func(scenario, name string, f filter.Filter, ref func(metav1.Object) bool, objs []metav1.Object, judged func(metav1.Object) bool,
		classify func(o metav1.Object, got bool) string) (nAcc int) {
		filters++
		key := make([]byte, 0, len(objs))
		for _, o := range objs {
			got := f.Accept(o)
			evals++
			if !judged(o) {
				continue
			}
			want := ref(o)
			pairs++
			rank++
			if got {
				nAcc++
				key = append(key, '1')
			} else {
				key = append(key, '0')
			}
			if got != want {
				o := o
				fs.add(scenario, classify(o, got), rank, func() string {
					return fmt.Sprintf("%s: Accept=%v reference=%v on %s", name, got, want, descObj(o))
				})
			}
		}
		accepted += int64(nAcc)
		distinct[scenario+string(key)] = struct{}{}
		return
	}
	all := func(metav1.Object) bool { return true }
	kindClass := func(o metav1.Object, got bool) string {
		if got {
			return fmt.Sprintf("accepts a %T its arguments do not describe", o)
		}
		return fmt.Sprintf("rejects a %T its arguments describe", o)
	}

	// ---- the seven pods filters
	var pods []metav1.Object
	for _, ns := range []string{"a", "b"} {
		for _, l := range labelMaps([]string{"1", "2"}) {
			pods = append(pods, mkPod(ns, "p", l, ""))
		}
	}
	others := []metav1.Object{mkSvc("a", "p", map[string]string{K1: "1", K2: "1"}, nil), mkSecret("a", "p", map[string]string{K1: "1", K2: "1"})}
	nonPodAccepted := 0
	for _, kind := range podKinds {
		kind, ws := kind, c19Workloads(kind)
		nsets := 0
		combos(len(ws), max, func(ix []int) {
			nsets++
			var set []W
			for _, i := range ix {
				set = append(set, ws[i])
			}
			sort.Slice(set, func(i, j int) bool { return set[i].Name < set[j].Name })
			f := buildPods(kind, set)
			name := tPods(kind, set...).Name
			n := run("c19/"+kind+"-podsfilter", name, f, func(o metav1.Object) bool { return podsRef(kind, set, o) }, pods, all,
				func(o metav1.Object, got bool) string { return podsClass(kind, set, o.(*corev1.Pod), got) })
			for _, o := range others {
				if f.Accept(o) {
					nonPodAccepted++
				}
			}
			if nsets == 9 || nsets == 200 {
				sample(map[string]interface{}{"filter": name, "accepts_pods": n, "of_pods": len(pods)})
			}
		})
		sub[kind+"-podsfilter"] = map[string]int{"workloads": len(ws), "sets": nsets, "pods": len(pods)}
	}
	cov["pods_filter_acceptances_of_non_pod_objects_with_matching_labels_not_judged"] = nonPodAccepted

	// ---- ingress services filter
	var ings []Ing
	for _, ns := range []string{"a", "b"} {
		for _, def := range []struct {
			has bool
			n   string
		}{{false, ""}, {true, "x"}, {true, ""}} {
			for _, rules := range [][][]string{nil, {{"y"}}, {{"x", "y"}}, {{"x"}, {"z"}}, {nil}, {{"x", ""}}, {nil, {"y"}}} {
				ings = append(ings, Ing{NS: ns, Name: fmt.Sprintf("i%d", len(ings)), HasDef: def.has, Default: def.n, Rules: rules})
			}
		}
	}
	var svcs []metav1.Object
	for _, ns := range []string{"a", "b"} {
		for _, n := range []string{"x", "y", "z", "w"} {
			svcs = append(svcs, mkSvc(ns, n, nil, nil))
		}
	}
	svcs = append(svcs, mkPod("a", "x", nil, ""))
	isSvc := func(o metav1.Object) bool { _, ok := o.(*corev1.Service); return ok }
	nsets, nonSvcAccepted := 0, 0
	combos(len(ings), max, func(ix []int) {
		nsets++
		var set []Ing
		for _, i := range ix {
			set = append(set, ings[i])
		}
		f := buildServices(set)
		name := tServices(set...).Name
		n := run("c19/ingress-servicesfilter", name, f, func(o metav1.Object) bool { return servicesRef(set, o) }, svcs, isSvc,
			func(o metav1.Object, got bool) string {
				sameNS := false
				for _, g := range set {
					sameNS = sameNS || g.NS == o.GetNamespace()
				}
				switch {
				case got && !sameNS:
					return "accepts service in a namespace without ingress"
				case got:
					return "accepts service that is no backend of an ingress in its namespace"
				}
				return "rejects service that is a backend of an ingress in its namespace"
			})
		if f.Accept(svcs[len(svcs)-1]) {
			nonSvcAccepted++
		}
		if nsets == 20 {
			sample(map[string]interface{}{"filter": name, "accepts_services": n, "of_services": len(svcs) - 1})
		}
	})
	sub["ingress-servicesfilter"] = map[string]int{"ingresses": len(ings), "sets": nsets, "services": len(svcs) - 1}
	cov["services_filter_acceptances_of_a_pod_named_like_a_backend_not_judged"] = nonSvcAccepted

	// ---- node filter
	var nodeObjs []metav1.Object
	for _, ns := range []string{"a", "b"} {
		for _, node := range []string{"", "n1", "n2", "n3"} {
			nodeObjs = append(nodeObjs, mkPod(ns, "p", nil, node))
		}
	}
	nodeObjs = append(nodeObjs, &corev1.Node{ObjectMeta: meta("", "n1", nil)}, mkSvc("a", "n1", nil, nil))
	n := 0
	for _, names := range [][]string{{}, {"n1"}, {"n2"}, {"n1", "n2"}, {"n2", "n1"}, {"n1", "n1"}} {
		t := tNode(names...)
		run("c19/nodefilter", t.Name, t.Build(), t.Ref, nodeObjs, all, kindClass)
		n++
	}
	sub["nodefilter"] = map[string]int{"filters": n, "objects": len(nodeObjs)}

	// ---- involved-object filter
	var evObjs []metav1.Object
	for _, own := range []string{"a", "b"} {
		for _, k := range []string{"Pod", "Service", "Node", "pod", ""} { // "": an involved object without TypeMeta
			for _, ns := range []string{"a", "b", ""} {
				for _, nm := range []string{"x", "y", "z"} {
					evObjs = append(evObjs, mkEvent(own, "e", nil, k, ns, nm))
				}
			}
		}
	}
	evObjs = append(evObjs, mkPod("a", "x", nil, ""), mkSvc("a", "x", nil, nil), mkPod("b", "y", nil, ""))
	n = 0
	for _, k := range []string{"Pod", "Service", ""} { // an empty kind is a kind like any other, not a wildcard
		for _, ns := range []string{"a", "b"} {
			for _, nm := range []string{"x", "y"} {
				t := tInvolved(k, ns, nm)
				run("c19/involvedfilter", t.Name, t.Build(), t.Ref, evObjs, all, kindClass)
				n++
			}
		}
	}
	sub["involvedfilter"] = map[string]int{"filters": n, "objects": len(evObjs)}

	// ---- selector-match filter
	var smObjs []metav1.Object
	lm := labelMapsE([]string{"1", "2"})
	for _, ns := range []string{"a", "b"} {
		smObjs = append(smObjs, mkSvc(ns, "s", nil, nil))
		for _, s := range lm {
			smObjs = append(smObjs, mkSvc(ns, "s", nil, s))
		}
	}
	for _, l := range lm {
		smObjs = append(smObjs, mkPod("a", "s", l, ""))
	}
	n = 0
	for _, target := range append([]map[string]string{nil}, lm...) {
		t := tSelMatch(target)
		c := run("c19/selectormatchfilter", t.Name, t.Build(), t.Ref, smObjs, all, kindClass)
		if n == 5 {
			sample(map[string]interface{}{"filter": t.Name, "accepts": c, "of_objects": len(smObjs)})
		}
		n++
	}
	sub["selectormatchfilter"] = map[string]int{"filters": n, "objects": len(smObjs)}
	sample(map[string]interface{}{"object": descObj(pods[4])})
	sample(map[string]interface{}{"object": descObj(evObjs[5])})

	for _, f := range capViolations(fs.m, 10) {
		res.Violations = append(res.Violations, explore.Violation{Scenario: f.scenario, Messages: []string{f.msg()}, Signature: f.sig})
	}
	res.Evaluations = evals
	res.Distinct = pairs
	res.States = filters
	cov["filters"] = filters
	cov["max_set_size"] = max
	cov["filter_object_pairs_judged"] = pairs
	cov["accept_calls"] = evals
	cov["pairs_accepted"] = accepted
	cov["pairs_rejected"] = pairs - accepted
	cov["distinct_bitvectors"] = len(distinct)
	cov["sub_checks"] = sub
	cov["violation_signatures_total"] = len(fs.m)
	res.Note = fmt.Sprintf("all workload sets of size <= %d per kind x all candidates; %d filters, %d (filter, object) pairs", max, filters, pairs)
	return res
}

// podsClass names the class of a pods-filter disagreement (got = the real filter's answer).
func podsClass(kind string, set []W, p *corev1.Pod, got bool) string {
	otherNSMatch, lacking, lackingHere, selMatch := false, false, false, false
	for _, w := range set {
		lacks := w.Sel == nil || (mapKind(kind) && len(w.Sel.ML) == 0)
		lacking = lacking || lacks
		lackingHere = lackingHere || (lacks && w.NS == p.Namespace)
		if s, ok := wEffective(kind, w); ok && s.Matches(p.Labels) {
			otherNSMatch = otherNSMatch || w.NS != p.Namespace
			selMatch = selMatch || (w.NS == p.Namespace && !lacks)
		}
	}
	noSel := "accepts pod not matching the template labels of a selector-less workload"
	if kind == "svc" {
		noSel = "service without selector selects pods"
	}
	switch {
	case got && otherNSMatch:
		// some workload of ANOTHER namespace matches (by selector or by template labels): the namespace is what is ignored
		return "accepts pod in other namespace"
	case got && lackingHere:
		return noSel
	case got && lacking:
		return noSel
	case got:
		return "accepts pod matched by no given workload"
	case selMatch:
		return "rejects pod matched by the selector of a workload in its namespace"
	}
	return "rejects pod matching the template labels of a selector-less workload in its namespace"
}
