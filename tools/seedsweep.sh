#!/bin/bash
# runs every seeded change (and every own mutant with a known target) against the check of its property; one line each.
# Uses tools/seedcheck.sh (scratch worktree + source overlay: /repo is not touched), ${SWEEP_JOBS:-4} at a time.
# seeded dirs: C07-1, C07-2 (round 1), C07-3, C07-4 (round 2) ...; property = text before the first '-'
cd /verif
one() { # <label> <patch> <check>
  out=$(tools/seedcheck.sh "$2" "$3" 2>&1)
  if echo "$out" | grep -q "rc=1"; then echo "$1 caught by $3"; else echo "$1 MISSED by $3: $(echo "$out" | grep -v REDUCTION-OFF | head -2 | tr '\n' ' ' | cut -c1-200)"; fi
}
export -f one
{
  # (seeded/<id>/sweep_check, if present, names the check to run instead of the property's own: C09-8 is seen by
  #  C09's thorough tier only and by the quick tier of C05, which owns the broken fan-out)
  for d in seeded/*/; do [ -f $d/retired ] && continue; id=$(basename $d); chk=${id%%-*}; [ -f $d/sweep_check ] && chk=$(cat $d/sweep_check); echo "$id /verif/$d/patch.diff $chk"; done
  while read f id; do [ -n "$f" ] && echo "mutant:$f /verif/mutants/$f $id"; done <<'LIST'
c15_shared_scratch_slice.diff C15
c01_accept_nil_zero_entry.diff C01
c01_duplicate_key_newest_rejected.diff C01
c02_update_le.diff C02
c02_delete_unknown_emits.diff C02
c13_ticker_blocking_drain.diff C13
c10_blocking_outch_send.diff C10
c08_ready_before_sync.diff C08
c06_forget_filter_assignment.diff C06
c04_watcher_outch_renewed_on_retry.diff C04
c12_session_stop_without_cancel.diff C12
c14_later_list_errors_ignored.diff C14
c11_monitor_close_does_not_close_subscription.diff C11
c09_ingresspods_leaks_intermediate_join.diff C09
c20_typed_monitor_passes_nil_for_foreign.diff C20
c19_rc_no_template_fallback.diff C19
c03_stale_retry_after_reset.diff C03
c01_sync_stops_after_256_entries.diff C01
c16_monitor_skips_every_101st_event.diff C16
c09_deployment_filter_capped_at_64_sources.diff C09
LIST
} | xargs -P ${SWEEP_JOBS:-4} -L 1 bash -c 'one "$0" "$1" "$2"' | tee ${SWEEP_PROGRESS:-/dev/null} | sort
