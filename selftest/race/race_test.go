//go:build verif && vsnative

// Free-running -race pass for the last sentence of C15 ("no data races on
// cache state").  Auxiliary and sampling by nature: under the cooperative
// scheduler the race detector is blind (hand-offs are happens-before edges),
// so this is the only place a data race can surface.  A report here is a
// violation; silence is not claimed as proof.
package race

import (
	"context"
	"fmt"
	"sync"
	"testing"

	"github.com/boz/kcache"
	"github.com/boz/kcache/filter"
	corev1 "k8s.io/api/core/v1"
	metav1 "k8s.io/apimachinery/pkg/apis/meta/v1"
)

type nop struct{}

func pod(name string, rv int, l string) metav1.Object {
	return &corev1.Pod{ObjectMeta: metav1.ObjectMeta{Namespace: "ns", Name: name, ResourceVersion: fmt.Sprint(rv), Labels: map[string]string{"l": l}}}
}

func TestCacheReadersAndWriters(t *testing.T) {
	stop := make(chan struct{})
	c := kcache.VNewCache(context.Background(), kcache.VNopLog(), stop, filter.Null())
	var wg sync.WaitGroup
	for r := 0; r < 4; r++ {
		wg.Add(1)
		go func() {
			defer wg.Done()
			for i := 0; i < 400; i++ {
				l, err := c.List()
				if err != nil {
					return
				}
				for j := range l {
					l[j] = nil // the slice belongs to the caller
				}
				c.Get("ns", "a")
			}
		}()
	}
	for i := 1; i <= 300; i++ {
		switch i % 3 {
		case 0:
			c.Sync([]metav1.Object{pod("a", i, "1"), pod("b", i, "0")})
		case 1:
			c.Update(kcache.NewEvent(kcache.EventTypeUpdate, pod("a", i, "0")))
		default:
			c.Refilter([]metav1.Object{pod("a", i, "1"), pod("b", i, "1")}, filter.Labels(map[string]string{"l": "1"}))
		}
	}
	wg.Wait()
	close(stop)
	<-c.Done()
}
