package filters

import (
	"fmt"
	"reflect"
	"strings"
	"sync/atomic"
	"time"

	"github.com/boz/kcache/filter"
	metav1 "k8s.io/apimachinery/pkg/apis/meta/v1"

	"verif/explore"
	"verif/runner"
)

// C18 — combinators implement boolean and label-selector semantics.
func C18() runner.Property {
	return runner.Property{
		ID:    "C18",
		Level: "exploration",
		Rule: "exhaustive enumeration: for every term of the finite term universe and every object, the real filter's Accept equals an " +
			"independent evaluator written from the property text (booleans by structural recursion, NSName by entry matching with " +
			"one-empty-field wildcards, own implementation of set-based label selector semantics); every Accept is evaluated twice " +
			"(ascending object order on the originals, descending order on deep copies) and must agree; objects must be deep-equal afterwards",
		Assumptions: []string{
			"depth: atoms have depth 1, a combinator 1 + max depth of its children; combinator arity 0..2",
			"NSName entries with both fields empty are outside the contract and are not generated",
			"a nil *LabelSelector selects nothing, an empty one everything (Kubernetes LabelSelectorAsSelector convention)",
			"depth 3 is enumerated over a reduced atom set (listed in coverage), depth <= 2 over the full atom set",
		},
		Scenarios: func(string) []runner.Sc { return nil },
		Extra:     c18Extra,
	}
}

// 3 namespaces x 3 names (one of them also a namespace string) x all label maps over 2 keys x {3 values, the empty string} (each key absent or one value).
func c18Objects() []metav1.Object {
	var out []metav1.Object
	for _, ns := range []string{"a", "b", "c"} {
		for _, n := range []string{"x", "y", "a"} { // "a" is also a namespace
			for _, l := range labelMapsE([]string{"1", "2", "3"}) {
				out = append(out, mkPod(ns, n, l, ""))
			}
		}
	}
	return out
}

type bv3 [4]uint64

func toBV3(b BV) (k bv3) { copy(k[:], b); return }

// c18World is one worker's private copy of the object universe.
type c18World struct {
	objs, copies, pristine []metav1.Object
	n                      int
	mask                   BV
	accepts, rejects       int64
	terms, evals           int64
	distinct               map[bv3]struct{}
}

func newC18World() *c18World {
	w := &c18World{objs: c18Objects(), distinct: map[bv3]struct{}{}}
	w.n = len(w.objs)
	w.mask = newBV(w.n)
	for i, o := range w.objs {
		w.copies = append(w.copies, deepCopyObj(o))
		w.pristine = append(w.pristine, deepCopyObj(o))
		w.mask.set(i)
	}
	return w
}

// eval runs the two passes for one real filter.
func (w *c18World) eval(f filter.Filter) (a, b BV) {
	a, b = newBV(w.n), newBV(w.n)
	for i := 0; i < w.n; i++ {
		if f.Accept(w.objs[i]) {
			a.set(i)
		}
	}
	for i := w.n - 1; i >= 0; i-- {
		if f.Accept(w.copies[i]) {
			b.set(i)
		}
	}
	w.terms++
	w.evals += 2 * int64(w.n)
	return
}

func (w *c18World) mutated() int {
	for i := range w.objs {
		if !reflect.DeepEqual(w.objs[i], w.pristine[i]) || !reflect.DeepEqual(w.copies[i], w.pristine[i]) {
			return i
		}
	}
	return -1
}

// blame descends to the smallest subterm whose real Accept disagrees with the reference on o.
func blame(t *Term, o metav1.Object) *Term {
	for _, k := range t.Kids {
		if k.Build().Accept(o) != k.Ref(o) {
			return blame(k, o)
		}
	}
	return t
}

func c18Extra(tier string, seed int64) *runner.ExtraResult {
	start := time.Now()
	thorough := tier == "thorough"
	budget := 40 * time.Second
	if thorough {
		budget = 540 * time.Second
	}
	deadline := start.Add(budget)
	res := &runner.ExtraResult{Name: "c18 combinator semantics: all terms x all objects vs reference evaluator", Coverage: map[string]interface{}{}}
	cov := res.Coverage

	atoms := coreAtoms()
	if len(dedupe(atoms)) != len(atoms) {
		res.Note = "ENGINE: atom names are not unique"
		return res
	}
	explicit := dedupe(append(append([]*Term(nil), atoms...), closure(atoms)...)) // all terms of depth <= 2
	d3l := 1
	if thorough {
		d3l = 2
	}
	d3atoms := atomsUpTo(atoms, d3l)
	base := dedupe(append(append([]*Term(nil), d3atoms...), closure(d3atoms)...)) // children of depth-3 terms
	if len(c18Objects()) > 256 {
		res.Note = "ENGINE: object universe larger than bv3"
		return res
	}

	worlds := make([]*c18World, workers())
	for i := range worlds {
		worlds[i] = newC18World()
	}
	var fs foundSet
	var aborted int32
	var rank int64 // rank of streamed terms is derived from (row, position), see below

	// compare checks one term: real passes a, b against the reference vector r.
	compare := func(w *c18World, a, b, r BV, rk int64, term func() *Term) {
		if d := a.firstDiff(b); d >= 0 {
			t := term()
			fs.add("c18/purity", t.Shape()+" Accept is not a function of the object (differs between evaluations / on a deep copy)", rk,
				func() string {
					return fmt.Sprintf("%s: first evaluation on %s gave %v, second evaluation on a deep copy gave %v", t.Name, descObj(w.pristine[d]), a.get(d), b.get(d))
				})
		}
		for _, x := range []BV{a, b} {
			d := x.firstDiff(r)
			if d < 0 {
				continue
			}
			t, o, got := term(), w.pristine[d], x.get(d)
			c := blame(t, o)
			dir := "accepts an object the reference rejects"
			if c.Ref(o) { // direction as seen at the blamed subterm
				dir = "rejects an object the reference accepts"
			}
			class := c.Ctor
			if c.Class != "" {
				class += "[" + c.Class + "]"
			} else if len(c.Kids) > 0 || c.Ctor == "And" || c.Ctor == "Or" {
				class += fmt.Sprintf("[arity %d]", len(c.Kids))
			}
			fs.add("c18/"+strings.ToLower(c.Ctor), class+" "+dir, rk, func() string {
				return fmt.Sprintf("%s: Accept=%v reference=%v on %s (smallest disagreeing subterm: %s)", t.Name, got, !got, descObj(o), c.Name)
			})
			break
		}
		w.accepts += int64(r.count())
		w.rejects += int64(w.n - r.count())
		w.distinct[toBV3(r)] = struct{}{}
	}
	checkMutation := func(w *c18World, rk int64, what string) {
		if d := w.mutated(); d >= 0 {
			o := descObj(w.pristine[d])
			fs.add("c18/purity", "Accept mutates its argument", rk, func() string {
				return fmt.Sprintf("after evaluating %s the object %s is no longer deep-equal to its pristine copy", what, o)
			})
			nw := newC18World()
			w.objs, w.copies = nw.objs, nw.copies
		}
	}

	// 1. all terms of depth <= 2 over the full atom set, explicitly
	parFor(len(explicit), func(wi, i int) {
		w, t := worlds[wi], explicit[i]
		a, b := w.eval(t.Build())
		r := newBV(w.n)
		for k, o := range w.pristine {
			if t.Ref(o) {
				r.set(k)
			}
		}
		compare(w, a, b, r, int64(i), func() *Term { return t })
		checkMutation(w, int64(i), t.Name)
	})
	rank = int64(len(explicit))

	// 2. depth 3 over the reduced atom set, streamed: children are the terms of `base`
	B := len(base)
	FB := make([]filter.Filter, B)
	RB := make([]BV, B)
	pr := worlds[0].pristine
	for i, t := range base {
		FB[i] = t.Build()
		RB[i] = newBV(len(pr))
		for k, o := range pr {
			if t.Ref(o) {
				RB[i].set(k)
			}
		}
	}
	var d3terms, rowsDone int64
	rot := int(((seed % int64(B)) + int64(B)) % int64(B))
	parFor(B, func(wi, k int) {
		if atomic.LoadInt32(&aborted) != 0 {
			return
		}
		if time.Now().After(deadline) {
			atomic.StoreInt32(&aborted, 1)
			return
		}
		i := (k + rot) % B
		w := worlds[wi]
		n := int64(0)
		rk := func(pos int) int64 { return rank + (int64(i)*int64(B)+int64(pos))*5 }
		one := func(pos int, slot int64, f filter.Filter, r BV, term func() *Term) {
			a, b := w.eval(f)
			compare(w, a, b, r, rk(pos)+slot, term)
			n++
		}
		ti := base[i]
		if ti.Depth == 2 {
			not := newBV(w.n)
			for x := range not {
				not[x] = ^RB[i][x] & w.mask[x]
			}
			one(0, 0, filter.Not(FB[i]), not, func() *Term { return comb("Not", ti) })
			one(0, 1, filter.And(FB[i]), RB[i], func() *Term { return comb("And", ti) })
			one(0, 2, filter.Or(FB[i]), RB[i], func() *Term { return comb("Or", ti) })
		}
		for j := 0; j < B; j++ {
			tj := base[j]
			if ti.Depth < 2 && tj.Depth < 2 {
				continue // depth 2, covered explicitly
			}
			and, or := newBV(w.n), newBV(w.n)
			for x := range and {
				and[x], or[x] = RB[i][x]&RB[j][x], RB[i][x]|RB[j][x]
			}
			one(j, 3, filter.And(FB[i], FB[j]), and, func() *Term { return comb("And", ti, tj) })
			one(j, 4, filter.Or(FB[i], FB[j]), or, func() *Term { return comb("Or", ti, tj) })
		}
		checkMutation(w, rk(0), "the depth-3 terms with first child "+ti.Name)
		atomic.AddInt64(&d3terms, n)
		atomic.AddInt64(&rowsDone, 1)
	})

	// 3. shared sub-filters: a composite built from a child slice with spare capacity (the way the typed PodsFilter
	// functions grow theirs) is used as the first child of two further composites; building the second one must not
	// change what the first one (or the shared base) accepts, and all three must match the reference
	var sharedTerms int64
	{
		sa := atomsUpTo(atoms, 1)
		w := worlds[0]
		refOf := func(t *Term) BV {
			r := newBV(w.n)
			for k, o := range w.pristine {
				if t.Ref(o) {
					r.set(k)
				}
			}
			return r
		}
		rk := rank + int64(B)*int64(B)*5 + 1
		for _, ctor := range []string{"And", "Or"} {
			mk := func(fs ...filter.Filter) filter.Filter {
				if ctor == "And" {
					return filter.And(fs...)
				}
				return filter.Or(fs...)
			}
			for _, ta := range sa {
				for _, tb := range sa {
					for _, tx := range sa {
						for _, ty := range sa {
							kids := make([]filter.Filter, 0, 8)
							kids = append(kids, ta.Build(), tb.Build())
							tbase := comb(ctor, ta, tb)
							base := mk(kids...)
							t1, t2 := comb(ctor, tbase, tx), comb(ctor, tbase, ty)
							f1 := mk(base, tx.Build())
							a1, b1 := w.eval(f1)
							f2 := mk(base, ty.Build())
							a1x, _ := w.eval(f1)
							if d := a1.firstDiff(a1x); d >= 0 {
								o := descObj(w.pristine[d])
								fs.add("c18/purity", ctor+" built from a shared base changes when another composite is built from the same base", rk, func() string {
									return fmt.Sprintf("base := %s (child slice with spare capacity); f1 := %s accepted=%v on %s; after also building %s from the same base, f1 accepts=%v", tbase.Name, t1.Name, a1.get(d), o, t2.Name, a1x.get(d))
								})
							}
							compare(w, a1x, b1, refOf(t1), rk, func() *Term { return t1 })
							a2, b2 := w.eval(f2)
							compare(w, a2, b2, refOf(t2), rk, func() *Term { return t2 })
							ab, bb := w.eval(base)
							compare(w, ab, bb, refOf(tbase), rk, func() *Term { return tbase })
							sharedTerms += 3
							rk++
						}
					}
				}
			}
		}
		checkMutation(w, rk, "the shared-base composites")
	}

	// 4. the caller changes its argument after construction: Labels(m) and LabelSelector(ls) must keep the meaning they
	// were built with (And/Or keep the variadic slice by design - the usual Go caveat - and are not subjected to this)
	var mutatedArgs int64
	{
		w := worlds[0]
		rk := rank + int64(B)*int64(B)*5 + 1_000_000
		for _, m := range labelMapsE([]string{"1", "2"}) {
			if len(m) == 0 {
				continue
			}
			t := tLabels(m)
			arg := copyMap(m)
			f := filter.Labels(arg)
			a1, _ := w.eval(f)
			for k := range arg {
				arg[k] = "changed"
			}
			arg["extra"] = "1"
			a2, b2 := w.eval(f)
			if d := a1.firstDiff(a2); d >= 0 {
				o := descObj(w.pristine[d])
				fs.add("c18/purity", "Labels keeps evaluating against the caller's map", rk, func() string {
					return fmt.Sprintf("%s accepted=%v on %s; after the caller changed the map it had passed in, the same filter accepts=%v", t.Name, a1.get(d), o, a2.get(d))
				})
			}
			r := newBV(w.n)
			for k, o := range w.pristine {
				if t.Ref(o) {
					r.set(k)
				}
			}
			compare(w, a2, b2, r, rk, func() *Term { return t })
			mutatedArgs++
			rk++
		}
		ls := &metav1.LabelSelector{MatchLabels: map[string]string{K1: "1"}, MatchExpressions: []metav1.LabelSelectorRequirement{{Key: K2, Operator: metav1.LabelSelectorOpExists}}}
		f := filter.LabelSelector(ls)
		a1, _ := w.eval(f)
		ls.MatchLabels[K1] = "2"
		ls.MatchExpressions[0].Operator = metav1.LabelSelectorOpDoesNotExist
		if a2, _ := w.eval(f); a1.firstDiff(a2) >= 0 {
			fs.add("c18/purity", "LabelSelector keeps evaluating against the caller's selector", rk, func() string {
				return "LabelSelector{k1=1; k2 Exists} changes its verdict after the caller mutated the selector it had passed in"
			})
		}
		mutatedArgs++
	}

	for _, f := range capViolations(fs.m, 10) {
		res.Violations = append(res.Violations, explore.Violation{Scenario: f.scenario, Messages: []string{f.msg()}, Signature: f.sig})
	}

	distinct := map[bv3]struct{}{}
	var accepts, rejects, terms, evals int64
	for _, w := range worlds {
		accepts, rejects, terms, evals = accepts+w.accepts, rejects+w.rejects, terms+w.terms, evals+w.evals
		for k := range w.distinct {
			distinct[k] = struct{}{}
		}
	}
	nobj := int64(worlds[0].n)
	byCtor := map[string]int{}
	for _, a := range atoms {
		byCtor[a.Ctor]++
	}
	var d3names []string
	for _, a := range d3atoms {
		d3names = append(d3names, a.Name)
	}
	for _, i := range []int{2, 9, 40, len(atoms) + 3, len(explicit) / 2, len(explicit) - 1} {
		t := explicit[i]
		n := 0
		for _, o := range pr {
			if t.Ref(o) {
				n++
			}
		}
		res.Samples = append(res.Samples, map[string]interface{}{"term": t.Name, "depth": t.Depth, "reference_accepts": n, "of_objects": nobj})
	}
	if B > 0 {
		t := comb("Or", base[B-1], base[B/2])
		res.Samples = append(res.Samples, map[string]interface{}{"depth3_term": t.Name})
	}
	res.Samples = append(res.Samples, map[string]interface{}{"object": descObj(pr[7])}, map[string]interface{}{"object": descObj(pr[len(pr)-1])})

	res.Complete = aborted == 0 && rowsDone == int64(B)
	res.Evaluations = evals
	res.Distinct = terms * nobj
	res.States = terms
	cov["terms"] = terms
	cov["terms_depth_le2_full_atom_set"] = len(explicit)
	cov["terms_depth3_reduced_atom_set"] = d3terms
	cov["terms_built_from_a_shared_base"] = sharedTerms
	cov["filters_whose_argument_was_mutated_after_construction"] = mutatedArgs
	cov["atoms"] = len(atoms)
	cov["atoms_by_constructor"] = byCtor
	cov["depth3_atoms"] = d3names
	cov["depth3_children"] = B
	cov["objects"] = nobj
	cov["term_object_pairs"] = terms * nobj
	cov["accept_calls"] = evals
	cov["reference_accepting_pairs"] = accepts
	cov["reference_rejecting_pairs"] = rejects
	cov["distinct_bitvectors"] = len(distinct)
	res.Note = fmt.Sprintf("depth<=2 over all %d atoms (%d terms), depth 3 over %d atoms (%d terms); %d objects", len(atoms), len(explicit), len(d3atoms), d3terms, nobj)
	if !res.Complete {
		res.Note += fmt.Sprintf("; INCOMPLETE: time budget %v hit after %d of %d depth-3 rows", budget, rowsDone, B)
	}
	return res
}
