//go:build vsnative

// Native pass-through implementation of the shim API: real channels, real
// goroutines.  Used to validate the transformer (the repository's own test
// suite must pass on the transformed tree) and for free-running -race passes.
package vs

import (
	"fmt"
	"os"
	"reflect"
	"sort"
	"sync"
)

const Controlled = false

func EngineError(format string, args ...interface{}) {
	fmt.Fprintf(os.Stderr, "ENGINE-ERROR: "+format+"\n", args...)
	os.Exit(2)
}

func Make[T any](ch chan T) chan T                  { return ch }
func MakeCap[T any](ch chan T, capacity int) chan T { return ch }

type Rx[T any] struct{ ch <-chan T }
type Tx[T any] struct{ ch chan<- T }

func R[T any](ch <-chan T) Rx[T] { return Rx[T]{ch} }
func S[T any](ch chan<- T) Tx[T] { return Tx[T]{ch} }

type Case struct{ c reflect.SelectCase }

func (r Rx[T]) Case() Case {
	return Case{reflect.SelectCase{Dir: reflect.SelectRecv, Chan: reflect.ValueOf(r.ch)}}
}

func (t Tx[T]) Case(v T) Case {
	return Case{reflect.SelectCase{Dir: reflect.SelectSend, Chan: reflect.ValueOf(t.ch), Send: reflect.ValueOf(&v).Elem()}}
}

type Sel struct {
	Index int
	val   reflect.Value
	ok    bool
}

func Select(hasDefault bool, cases ...Case) Sel {
	rc := make([]reflect.SelectCase, 0, len(cases)+1)
	for _, c := range cases {
		rc = append(rc, c.c)
	}
	if hasDefault {
		rc = append(rc, reflect.SelectCase{Dir: reflect.SelectDefault})
	}
	i, v, ok := reflect.Select(rc)
	if hasDefault && i == len(cases) {
		return Sel{Index: -1}
	}
	return Sel{Index: i, val: v, ok: ok}
}

func (r Rx[T]) Val(x Sel) T {
	var zero T
	if !x.val.IsValid() {
		return zero
	}
	v, _ := x.val.Interface().(T)
	return v
}

func (r Rx[T]) Val2(x Sel) (T, bool) { return r.Val(x), x.ok }

func Recv[T any](ch <-chan T) T               { return <-ch }
func Recv2[T any](ch <-chan T) (T, bool)      { v, ok := <-ch; return v, ok }
func (t Tx[T]) Send(v T)                      { t.ch <- v }
func Send[T any](ch chan<- T, v T)            { ch <- v }
func Close[T any](ch chan<- T)                { close(ch) }
func CloseRW[T any](ch chan T)                { close(ch) }
func Len[C any](ch C) int                     { return reflect.ValueOf(ch).Len() }
func Cap[C any](ch C) int                     { return reflect.ValueOf(ch).Cap() }
func Go(name string, fn func())               { go fn() }
func GoRole(role, name string, fn func())     { go fn() }
func SetRole(role string) string              { return "" }
func New[T any](p *T) *T                      { return p }
func Unreachable() interface{}                { return "select returned no case" }
func Choose(n int) int                        { return 0 }
func Step(tag uint64)                         {}
func Note(vals ...uint64)                     {}
func RegisterObj(key interface{})             {}
func Logf(format string, args ...interface{}) {}

var mu sync.Mutex

func Atomic(key interface{}, fn func()) {
	mu.Lock()
	defer mu.Unlock()
	fn()
}

var failures []string

func Fail(format string, args ...interface{}) {
	mu.Lock()
	failures = append(failures, fmt.Sprintf(format, args...))
	mu.Unlock()
}

func Failures() []string { mu.Lock(); defer mu.Unlock(); return append([]string{}, failures...) }

// MapKeys keeps Go's semantics (an unspecified order); sorted here for reproducibility.
func MapKeys[K comparable, V any](m map[K]V) []K {
	keys := make([]K, 0, len(m))
	for k := range m {
		keys = append(keys, k)
	}
	sort.Slice(keys, func(i, j int) bool { return fmt.Sprint(keys[i]) < fmt.Sprint(keys[j]) })
	return keys
}
