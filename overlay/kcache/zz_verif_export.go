//go:build verif

package kcache

// In-package access for the verification harness.  This file is never part of
// /repo: it is added to package kcache by `go build -overlay` (see
// /verif/DESIGN.md 2.1) and only compiled with -tags verif.

import (
	"context"
	"time"

	logutil "github.com/boz/go-logutil"
	"github.com/boz/kcache/client"
	"github.com/boz/kcache/filter"
	lifecycle "github.com/boz/go-lifecycle"
	metav1 "k8s.io/apimachinery/pkg/apis/meta/v1"
	"k8s.io/apimachinery/pkg/runtime"
)

// VCache exposes the unexported cache interface.
type VCache struct{ c cache }

func VNewCache(ctx context.Context, log logutil.Log, stopch <-chan struct{}, f filter.Filter) VCache {
	return VCache{newCache(ctx, log, stopch, f)}
}

func (v VCache) Sync(list []metav1.Object) ([]Event, error)   { return v.c.sync(list) }
func (v VCache) Update(e Event) ([]Event, error)              { return v.c.update(e) }
func (v VCache) Refilter(list []metav1.Object, f filter.Filter) ([]Event, error) {
	return v.c.refilter(list, f)
}
func (v VCache) List() ([]metav1.Object, error)                 { return v.c.List() }
func (v VCache) Get(ns, name string) (metav1.Object, error)     { return v.c.Get(ns, name) }
func (v VCache) Done() <-chan struct{}                          { return v.c.Done() }
func (v VCache) Reader() CacheReader                            { return v.c }

// VSub exposes the unexported subscription interface (root subscription of a controller).
type VSub struct{ s subscription }

func VNewSubscription(log logutil.Log, stopch <-chan struct{}, readych <-chan struct{}, c CacheReader) VSub {
	return VSub{newSubscription(log, stopch, readych, c)}
}
func (v VSub) Send(e Event) error     { return v.s.send(e) }
func (v VSub) Sub() Subscription      { return v.s }

func VNewPublisher(log logutil.Log, parent Subscription) Controller { return newPublisher(log, parent) }

func VNewFilterSubscription(log logutil.Log, parent Subscription, f filter.Filter, deferReady bool) FilterSubscription {
	return newFilterSubscription(log, parent, f, deferReady)
}

func VNewFilterPublisher(log logutil.Log, sub FilterSubscription) FilterController {
	return newFilterPublisher(log, sub)
}

// VLister exposes the real lister.
type VLister struct{ l *_lister }

type VListResult struct {
	List runtime.Object
	Err  error
}

func VNewLister(ctx context.Context, log logutil.Log, stopch <-chan struct{}, period time.Duration, c client.ListClient) VLister {
	return VLister{newLister(ctx, log, stopch, period, c)}
}
func (v VLister) Done() <-chan struct{} { return v.l.Done() }
func (v VLister) Error() error          { return v.l.Error() }

// Take receives one result or reports that stop fired first.
func (v VLister) Take(stop <-chan struct{}) (VListResult, bool) {
	select {
	case r := <-v.l.Result():
		return VListResult{r.list, r.err}, true
	case <-stop:
		return VListResult{}, false
	case <-v.l.Done():
		return VListResult{}, false
	}
}

// VTicker exposes the real ticker.
type VTicker struct{ t ticker }

func VNewTicker(period time.Duration, fuzz float64) VTicker { return VTicker{newTicker(period, fuzz)} }
func (v VTicker) Next() <-chan int                         { return v.t.Next() }
func (v VTicker) Reset()                                   { v.t.Reset() }
func (v VTicker) Stop()                                    { v.t.Stop() }
func (v VTicker) Done() <-chan struct{}                    { return v.t.Done() }

// VWatcher exposes the real watcher.
type VWatcher struct{ w watcher }

func VNewWatcher(ctx context.Context, log logutil.Log, stopch <-chan struct{}, c client.WatchClient) VWatcher {
	return VWatcher{newWatcher(ctx, log, stopch, c)}
}
func (v VWatcher) Reset(vsn string) error   { return v.w.reset(vsn) }
func (v VWatcher) Events() <-chan Event     { return v.w.events() }
func (v VWatcher) Done() <-chan struct{}    { return v.w.Done() }
func (v VWatcher) Error() error             { return v.w.Error() }

// Fake lister / watcher that satisfy the unexported interfaces, for the
// controller seam (real controller.run + cache + root subscription/publisher).
type VFakeLister struct {
	ResultCh chan VListResult
	resultch chan listResult
	DoneCh   chan struct{}
	Err      error
}

func (f *VFakeLister) Result() <-chan listResult { return f.resultch }
func (f *VFakeLister) Done() <-chan struct{}     { return f.DoneCh }
func (f *VFakeLister) Error() error              { return f.Err }

// Deliver hands one list result to the controller (blocks until taken or stop closes).
func (f *VFakeLister) Deliver(r VListResult, stop <-chan struct{}) bool {
	select {
	case f.resultch <- listResult{r.List, r.Err}:
		return true
	case <-stop:
		return false
	}
}

func VNewFakeLister() *VFakeLister {
	return &VFakeLister{resultch: make(chan listResult), DoneCh: make(chan struct{})}
}

type VFakeWatcher struct {
	ResetCh chan string
	EventCh chan Event
	DoneCh  chan struct{}
	StopCh  <-chan struct{}
	Err     error
}

func (f *VFakeWatcher) reset(v string) error {
	select {
	case f.ResetCh <- v:
		return nil
	case <-f.StopCh:
		return ErrNotRunning
	}
}
func (f *VFakeWatcher) events() <-chan Event  { return f.EventCh }
func (f *VFakeWatcher) Done() <-chan struct{} { return f.DoneCh }
func (f *VFakeWatcher) Error() error          { return f.Err }

// VNewControllerWith assembles a controller exactly like builder.Create but
// with the given lister and watcher.
func VNewControllerWith(ctx context.Context, log logutil.Log, f filter.Filter, l *VFakeLister, w *VFakeWatcher) Controller {
	log = log.WithComponent("controller")
	lc := lifecycle.New()
	cache := newCache(ctx, log, lc.ShuttingDown(), f)
	readych := make(chan struct{})
	subscription := newSubscription(log, lc.ShuttingDown(), readych, cache)
	publisher := newPublisher(log, subscription)
	w.StopCh = lc.ShuttingDown()
	c := &controller{
		readych:      readych,
		subscription: subscription,
		publisher:    publisher,
		lister:       l,
		watcher:      w,
		cache:        cache,
		log:          log,
		lc:           lc,
		ctx:          ctx,
	}
	go c.lc.WatchContext(c.ctx)
	go c.run()
	return c
}

// VLifecycleStopping exposes the controller's stopping channel (tests of the fake seams).
func VControllerStopping(c Controller) <-chan struct{} {
	if cc, ok := c.(*controller); ok {
		return cc.lc.ShuttingDown()
	}
	return nil
}

type vNopLog struct{}

func (vNopLog) WithComponent(string) logutil.Log                      { return vNopLog{} }
func (vNopLog) Trace(string, ...interface{}) string                   { return "" }
func (vNopLog) Un(string)                                             {}
func (vNopLog) Debugf(string, ...interface{})                         {}
func (vNopLog) Infof(string, ...interface{})                          {}
func (vNopLog) Warnf(string, ...interface{})                          {}
func (vNopLog) Errorf(string, ...interface{})                         {}
func (vNopLog) Fatalf(string, ...interface{})                         {}
func (vNopLog) ErrWarn(err error, _ string, _ ...interface{}) error   { return err }
func (vNopLog) ErrFatal(err error, _ string, _ ...interface{}) error  { return err }
func (vNopLog) Err(err error, _ string, _ ...interface{}) error       { return err }

// VNopLog returns a silent logger (native self-tests).
func VNopLog() logutil.Log { return vNopLog{} }
