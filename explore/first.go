// Package explore contains the explorers (choosers) that drive vs.Execute.
package explore

import "verif/vs"

// First always takes the canonical default transition.
type First struct{}

func (First) Pick(s *vs.Sched, en []vs.Trans) int { return DefaultIndex(s, en) }

// DefaultIndex is the deterministic default scheduler: keep running the
// goroutine that ran last while it is enabled, otherwise the first enabled
// transition in canonical order; timers come last.
func DefaultIndex(s *vs.Sched, en []vs.Trans) int {
	if last := s.Last(); last != nil {
		for i, t := range en {
			if t.Involves(last) {
				return i
			}
		}
	}
	return 0
}
