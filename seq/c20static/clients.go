package c20static

import (
	"context"
	"fmt"
	"io"
	"net/http"
	"net/url"
	"path/filepath"
	"reflect"
	"sort"
	"strings"
	"sync"
	"time"

	appsv1 "k8s.io/api/apps/v1"
	batchv1 "k8s.io/api/batch/v1"
	corev1 "k8s.io/api/core/v1"
	extensionsv1beta1 "k8s.io/api/extensions/v1beta1"
	networkingv1 "k8s.io/api/networking/v1"
	networkingv1beta1 "k8s.io/api/networking/v1beta1"
	metav1 "k8s.io/apimachinery/pkg/apis/meta/v1"
	"k8s.io/client-go/kubernetes"
	"k8s.io/client-go/rest"

	"github.com/boz/kcache/client"
	"github.com/boz/kcache/types/daemonset"
	"github.com/boz/kcache/types/deployment"
	"github.com/boz/kcache/types/event"
	"github.com/boz/kcache/types/ingress"
	"github.com/boz/kcache/types/job"
	"github.com/boz/kcache/types/node"
	"github.com/boz/kcache/types/pod"
	"github.com/boz/kcache/types/replicaset"
	"github.com/boz/kcache/types/replicationcontroller"
	"github.com/boz/kcache/types/secret"
	"github.com/boz/kcache/types/service"
	"github.com/boz/kcache/types/statefulset"

	"verif/explore"
	"verif/runner"
)

const scenarioClients = "c20/clients"

// StrictClusterScoped selects how a namespace given to the client of a
// cluster-scoped resource (nodes) is judged. C20 says the client "lists and
// watches the API resource of its own type in the requested namespace"; the
// library passes the namespace through (/api/v1/namespaces/ns1/nodes), which is
// literally "nodes in the requested namespace" although no API server serves
// such a path. false (default): the pass-through conforms and is only recorded
// in Coverage["cluster_scoped_with_namespace"]. true: the only conforming
// request for a cluster-scoped resource is the un-namespaced one, and the
// pass-through is reported as a violation.
var StrictClusterScoped = false

// apiResource is one row of the independently written table: how the
// Kubernetes API serves a Go API type (API conventions: core group under
// /api/v1, named groups under /apis/<group>/<version>, lower-case plural
// resource names, cluster-scoped resources have no /namespaces/<ns> segment).
type apiResource struct {
	prefix     string
	resource   string
	namespaced bool
	kind       string
	apiVersion string
	listType   reflect.Type
}

// apiTable is keyed by "<Go import path>.<type name>" of the object type.
var apiTable = map[string]apiResource{
	"k8s.io/api/core/v1.Pod":                   {"/api/v1", "pods", true, "Pod", "v1", reflect.TypeOf(&corev1.PodList{})},
	"k8s.io/api/core/v1.Service":               {"/api/v1", "services", true, "Service", "v1", reflect.TypeOf(&corev1.ServiceList{})},
	"k8s.io/api/core/v1.Secret":                {"/api/v1", "secrets", true, "Secret", "v1", reflect.TypeOf(&corev1.SecretList{})},
	"k8s.io/api/core/v1.Event":                 {"/api/v1", "events", true, "Event", "v1", reflect.TypeOf(&corev1.EventList{})},
	"k8s.io/api/core/v1.Node":                  {"/api/v1", "nodes", false, "Node", "v1", reflect.TypeOf(&corev1.NodeList{})},
	"k8s.io/api/core/v1.ReplicationController": {"/api/v1", "replicationcontrollers", true, "ReplicationController", "v1", reflect.TypeOf(&corev1.ReplicationControllerList{})},
	"k8s.io/api/apps/v1.Deployment":            {"/apis/apps/v1", "deployments", true, "Deployment", "apps/v1", reflect.TypeOf(&appsv1.DeploymentList{})},
	"k8s.io/api/apps/v1.ReplicaSet":            {"/apis/apps/v1", "replicasets", true, "ReplicaSet", "apps/v1", reflect.TypeOf(&appsv1.ReplicaSetList{})},
	"k8s.io/api/apps/v1.DaemonSet":             {"/apis/apps/v1", "daemonsets", true, "DaemonSet", "apps/v1", reflect.TypeOf(&appsv1.DaemonSetList{})},
	"k8s.io/api/apps/v1.StatefulSet":           {"/apis/apps/v1", "statefulsets", true, "StatefulSet", "apps/v1", reflect.TypeOf(&appsv1.StatefulSetList{})},
	"k8s.io/api/batch/v1.Job":                  {"/apis/batch/v1", "jobs", true, "Job", "batch/v1", reflect.TypeOf(&batchv1.JobList{})},
	// the three API group/versions an Ingress Go type can belong to
	"k8s.io/api/networking/v1beta1.Ingress": {"/apis/networking.k8s.io/v1beta1", "ingresses", true, "Ingress", "networking.k8s.io/v1beta1", reflect.TypeOf(&networkingv1beta1.IngressList{})},
	"k8s.io/api/extensions/v1beta1.Ingress": {"/apis/extensions/v1beta1", "ingresses", true, "Ingress", "extensions/v1beta1", reflect.TypeOf(&extensionsv1beta1.IngressList{})},
	"k8s.io/api/networking/v1.Ingress":      {"/apis/networking.k8s.io/v1", "ingresses", true, "Ingress", "networking.k8s.io/v1", reflect.TypeOf(&networkingv1.IngressList{})},
}

// typedClient is one typed package as compiled in: its constructor and the
// object type of the package's own API (result type of Event.Resource()).
type typedClient struct {
	newClient func(kubernetes.Interface, string) client.Client
	objType   reflect.Type
}

func resourceType(eventIface interface{}) reflect.Type {
	t := reflect.TypeOf(eventIface).Elem()
	m, ok := t.MethodByName("Resource")
	if !ok || m.Type.NumOut() != 1 {
		return nil
	}
	return m.Type.Out(0)
}

var typedClients = map[string]typedClient{
	"pod":                   {pod.NewClient, resourceType((*pod.Event)(nil))},
	"service":               {service.NewClient, resourceType((*service.Event)(nil))},
	"secret":                {secret.NewClient, resourceType((*secret.Event)(nil))},
	"event":                 {event.NewClient, resourceType((*event.Event)(nil))},
	"node":                  {node.NewClient, resourceType((*node.Event)(nil))},
	"replicationcontroller": {replicationcontroller.NewClient, resourceType((*replicationcontroller.Event)(nil))},
	"deployment":            {deployment.NewClient, resourceType((*deployment.Event)(nil))},
	"replicaset":            {replicaset.NewClient, resourceType((*replicaset.Event)(nil))},
	"daemonset":             {daemonset.NewClient, resourceType((*daemonset.Event)(nil))},
	"statefulset":           {statefulset.NewClient, resourceType((*statefulset.Event)(nil))},
	"job":                   {job.NewClient, resourceType((*job.Event)(nil))},
	"ingress":               {ingress.NewClient, resourceType((*ingress.Event)(nil))},
}

// ---------------------------------------------------------------------------
// recording transport: a tiny API server model that never touches the network.

type recordedRequest struct {
	Method string
	Path   string
	Query  url.Values
	Status int
}

type recordingTransport struct {
	mu   sync.Mutex
	reqs []recordedRequest
	// hang: the server accepts the request and never answers; the round trip ends when the request's context does
	hang bool
}

func (rt *recordingTransport) take() []recordedRequest {
	rt.mu.Lock()
	defer rt.mu.Unlock()
	r := rt.reqs
	rt.reqs = nil
	return r
}

// serverKinds: what an API server answers for <prefix>/<resource>; the inverse of apiTable.
var serverKinds = func() map[string]apiResource {
	m := map[string]apiResource{}
	for _, r := range apiTable {
		m[r.prefix+"/"+r.resource] = r
	}
	return m
}()

func (rt *recordingTransport) RoundTrip(req *http.Request) (*http.Response, error) {
	if req.Body != nil {
		io.Copy(io.Discard, req.Body)
		req.Body.Close()
	}
	p := req.URL.Path
	q := req.URL.Query()
	rt.mu.Lock()
	hang := rt.hang
	rt.mu.Unlock()
	if hang {
		<-req.Context().Done()
		return nil, req.Context().Err()
	}
	status, body := rt.answer(p, q)
	rt.mu.Lock()
	rt.reqs = append(rt.reqs, recordedRequest{Method: req.Method, Path: p, Query: q, Status: status})
	rt.mu.Unlock()
	return &http.Response{
		Status:        fmt.Sprintf("%d %s", status, http.StatusText(status)),
		StatusCode:    status,
		Proto:         "HTTP/1.1",
		ProtoMajor:    1,
		ProtoMinor:    1,
		Header:        http.Header{"Content-Type": []string{"application/json"}},
		Body:          io.NopCloser(strings.NewReader(body)),
		ContentLength: int64(len(body)),
		Request:       req,
	}, nil
}

func notFound(p string) (int, string) {
	return 404, fmt.Sprintf(`{"kind":"Status","apiVersion":"v1","metadata":{},"status":"Failure","message":"the server could not find the requested resource (%s)","reason":"NotFound","code":404}`, p)
}

// answer models the API server's routing: [/api/v1 | /apis/<g>/<v>] [/watch] [/namespaces/<ns>] /<resource>.
// It is lenient about scope (a cluster-scoped resource under /namespaces/<ns>
// is answered, so that the request can be judged by the oracle rather than by the model).
func (rt *recordingTransport) answer(p string, q url.Values) (int, string) {
	seg := strings.Split(strings.Trim(p, "/"), "/")
	var prefix string
	switch {
	case len(seg) >= 2 && seg[0] == "api":
		prefix, seg = "/api/"+seg[1], seg[2:]
	case len(seg) >= 3 && seg[0] == "apis":
		prefix, seg = "/apis/"+seg[1]+"/"+seg[2], seg[3:]
	default:
		return notFound(p)
	}
	watch := q.Get("watch") == "true" || q.Get("watch") == "1"
	if len(seg) > 0 && seg[0] == "watch" {
		watch, seg = true, seg[1:]
	}
	if len(seg) >= 2 && seg[0] == "namespaces" {
		seg = seg[2:]
	}
	if len(seg) != 1 {
		return notFound(p)
	}
	r, ok := serverKinds[prefix+"/"+seg[0]]
	if !ok {
		return notFound(p)
	}
	if watch {
		return 200, "" // an event stream that ends immediately
	}
	return 200, fmt.Sprintf(`{"kind":"%sList","apiVersion":"%s","metadata":{"resourceVersion":"7"},"items":[]}`, r.kind, r.apiVersion)
}

// ---------------------------------------------------------------------------

func fmtQuery(q url.Values) string {
	if len(q) == 0 {
		return "<none>"
	}
	return q.Encode()
}

func sameQuery(a, b url.Values) bool {
	if len(a) != len(b) {
		return false
	}
	for k, av := range a {
		bv, ok := b[k]
		if !ok || len(av) != len(bv) {
			return false
		}
		for i := range av {
			if av[i] != bv[i] {
				return false
			}
		}
	}
	return true
}

// Clients decides the request construction of every typed client:
// 12 packages x namespace {"" , "ns1"} x {List, Watch}.
func Clients() *runner.ExtraResult {
	ctxWait := 20 * time.Second
	res := &runner.ExtraResult{Name: "c20-clients", Coverage: map[string]interface{}{}}
	complete := true
	viol := func(sig, msg string) {
		res.Violations = append(res.Violations, explore.Violation{
			Scenario:  scenarioClients,
			Messages:  []string{msg},
			Signature: scenarioClients + " :: " + sig,
		})
	}
	cmp := func() { res.Evaluations++ }

	// the packages to enumerate: those the Makefile generates, plus any compiled in here
	makeType := map[string]typeTuple{}
	var pkgs []string
	types, _, problems, err := parseMakefile(filepath.Join(RepoDir, "Makefile"))
	if err != nil || len(problems) > 0 {
		complete = false
		viol("Makefile generator lines not understood", fmt.Sprintf("cannot enumerate the typed packages from the Makefile: %v %v", err, problems))
	}
	seen := map[string]bool{}
	for _, t := range types {
		makeType[t.Pkg] = t
		if !seen[t.Pkg] {
			seen[t.Pkg] = true
			pkgs = append(pkgs, t.Pkg)
		}
	}
	var extra []string
	for p := range typedClients {
		if !seen[p] {
			extra = append(extra, p)
		}
	}
	sort.Strings(extra)
	pkgs = append(pkgs, extra...)

	var observations []interface{}
	requests := []map[string]interface{}{}
	ctx, cancel := context.WithTimeout(context.Background(), 60*time.Second)
	defer cancel()

	for _, pkg := range pkgs {
		tc, ok := typedClients[pkg]
		if !ok {
			complete = false
			viol(pkg+" has no constructor compiled into the check", fmt.Sprintf("Makefile generates typed package %q but verif/seq/c20static has no NewClient for it; its 4 requests were not checked", pkg))
			continue
		}
		if tc.objType == nil || tc.objType.Kind() != reflect.Ptr {
			viol(pkg+" Event.Resource() has no pointer result type", fmt.Sprintf("package %s: cannot determine the package's own object type (%v)", pkg, tc.objType))
			continue
		}
		typeKey := tc.objType.Elem().PkgPath() + "." + tc.objType.Elem().Name()
		// the Makefile's idea of the type must be the compiled one
		if mt, ok := makeType[pkg]; ok {
			cmp()
			want := strings.TrimLeft(mt.Specific, "*")
			alias, name := want, want
			if i := strings.IndexByte(want, '.'); i >= 0 {
				alias, name = want[:i], want[i+1:]
			}
			path := ""
			if gf, _, err := parseGoFile(filepath.Join(RepoDir, mt.Out)); err == nil {
				path = importBindings(gf)[alias]
			}
			if path+"."+name != typeKey {
				viol(fmt.Sprintf("%s object type %s differs from Makefile type %s", pkg, typeKey, mt.Specific),
					fmt.Sprintf("package %s: compiled object type is %s, the Makefile instantiates the template with %s (alias %s -> %q in %s)", pkg, typeKey, mt.Specific, alias, path, mt.Out))
			}
		}
		exp, ok := apiTable[typeKey]
		if !ok {
			complete = false
			viol(pkg+" object type "+typeKey+" is not in the API table", fmt.Sprintf("package %s: no independently written API row for Go type %s; its 4 requests were not checked", pkg, typeKey))
			continue
		}

		rt := &recordingTransport{}
		cs, err := kubernetes.NewForConfig(&rest.Config{Host: "http://kcache.invalid", Transport: rt, QPS: -1})
		if err != nil {
			complete = false
			viol(pkg+" clientset cannot be built", err.Error())
			continue
		}
		cmp()
		if pre := rt.take(); len(pre) != 0 {
			viol(pkg+" clientset construction sends requests", fmt.Sprintf("building the clientset sent %d requests, first %s %s", len(pre), pre[0].Method, pre[0].Path))
		}

		for _, ns := range []string{"", "ns1"} {
			nsTag := "ns=" + ns
			if ns == "" {
				nsTag = "ns=<all>"
			}
			c := tc.newClient(cs, ns)
			cmp()
			if pre := rt.take(); len(pre) != 0 {
				viol(fmt.Sprintf("%s NewClient %s sends requests", pkg, nsTag), fmt.Sprintf("%s.NewClient(cs, %q) sent %d requests, first %s %s", pkg, ns, len(pre), pre[0].Method, pre[0].Path))
			}
			// every call is made twice on the same client (a controller relists and reconnects through one client):
			// the second request must be as clean as the first
			// "watch#plain": Watch called the way client-go's typed clients are called, without the Watch flag in the
			// options - it must still be a watch request on the watch path of the resource
			// "#sel": the caller's label and field selectors must reach the server on both verbs (a controller built on a
			// selector-restricted client otherwise lists one set of objects and watches another)
			for _, call := range []string{"list", "watch", "watch#2", "list#2", "watch#plain", "list#sel", "watch#sel"} {
				res.Distinct++
				id := fmt.Sprintf("%s %s %s", pkg, call, nsTag)
				verb := strings.TrimSuffix(strings.TrimSuffix(strings.TrimSuffix(call, "#2"), "#plain"), "#sel")
				plain := strings.HasSuffix(call, "#plain")
				withSel := strings.HasSuffix(call, "#sel")
				rv := "42"
				if call == "watch#2" {
					rv = "43"
				}

				expPath := exp.prefix
				if verb == "watch" {
					expPath += "/watch"
				}
				passThrough := false
				if ns != "" {
					if exp.namespaced || !StrictClusterScoped {
						expPath += "/namespaces/" + ns
					}
					passThrough = !exp.namespaced
				}
				expPath += "/" + exp.resource
				expQuery := url.Values{}
				if verb == "watch" {
					expQuery = url.Values{"watch": {"true"}, "resourceVersion": {rv}}
				}

				if withSel {
					expQuery["labelSelector"] = []string{"app=web"}
					expQuery["fieldSelector"] = []string{"metadata.name=x"}
				}

				var callErr error
				var gotType reflect.Type
				var listRV string
				switch verb {
				case "list":
					lo := metav1.ListOptions{}
					if withSel {
						lo.LabelSelector, lo.FieldSelector = "app=web", "metadata.name=x"
					}
					obj, err := c.List(ctx, lo)
					callErr = err
					if obj != nil {
						gotType = reflect.TypeOf(obj)
						if acc, err := metaListAccessor(obj); err == nil {
							listRV = acc
						}
					}
				case "watch":
					wo := metav1.ListOptions{ResourceVersion: rv, Watch: !plain}
					if withSel {
						wo.LabelSelector, wo.FieldSelector = "app=web", "metadata.name=x"
					}
					w, err := c.Watch(ctx, wo)
					callErr = err
					if w != nil {
						gotType = reflect.TypeOf(w)
						w.Stop()
					}
				}
				reqs := rt.take()
				entry := map[string]interface{}{"client": pkg, "namespace": ns, "verb": verb, "expected_path": expPath}
				requests = append(requests, entry)

				cmp()
				if len(reqs) != 1 {
					viol(fmt.Sprintf("%s sent %d requests expected 1", id, len(reqs)), fmt.Sprintf("%s: %d HTTP requests recorded, expected exactly 1 (error %v)", id, len(reqs), callErr))
					if len(reqs) == 0 {
						continue
					}
				}
				r := reqs[0]
				entry["method"], entry["path"], entry["query"], entry["server_status"] = r.Method, r.Path, fmtQuery(r.Query), r.Status

				cmp()
				if r.Method != http.MethodGet {
					viol(fmt.Sprintf("%s method %s expected GET", id, r.Method), fmt.Sprintf("%s: request method is %s, expected GET (path %s)", id, r.Method, r.Path))
				}
				cmp()
				if r.Path != expPath {
					viol(fmt.Sprintf("%s path %s expected %s", id, r.Path, expPath),
						fmt.Sprintf("%s: request path is %s, expected %s (object type %s is served as resource %q under %s, namespaced=%v)", id, r.Path, expPath, typeKey, exp.resource, exp.prefix, exp.namespaced))
				}
				cmp()
				if plain && len(r.Query["watch"]) == 0 {
					// the watch path needs no watch=true parameter: both forms are a watch request
					delete(expQuery, "watch")
				}
				if !sameQuery(r.Query, expQuery) {
					viol(fmt.Sprintf("%s query %s expected %s", id, fmtQuery(r.Query), fmtQuery(expQuery)),
						fmt.Sprintf("%s: request query is %s, expected %s (a list carries no watch=true and no selector; a watch carries watch=true and the passed resourceVersion)", id, fmtQuery(r.Query), fmtQuery(expQuery)))
				}
				cmp()
				if callErr != nil {
					viol(fmt.Sprintf("%s failed (server model answered %d)", id, r.Status), fmt.Sprintf("%s: call returned an error; the server model answered %d to %s: %v", id, r.Status, r.Path, callErr))
				}
				cmp()
				switch verb {
				case "list":
					if gotType != exp.listType {
						viol(fmt.Sprintf("%s returned %s expected %s", id, typeName(gotType), typeName(exp.listType)),
							fmt.Sprintf("%s: List returned %s, expected a list of the package's own type %s (server model answered %s with the list kind served at that path)", id, typeName(gotType), typeName(exp.listType), r.Path))
					} else if listRV != "7" {
						viol(fmt.Sprintf("%s list resourceVersion %q expected 7", id, listRV), fmt.Sprintf("%s: decoded list carries resourceVersion %q, the answer said 7", id, listRV))
					}
				case "watch":
					if gotType == nil && callErr == nil {
						viol(fmt.Sprintf("%s returned neither watcher nor error", id), fmt.Sprintf("%s: Watch returned (nil, nil)", id))
					}
				}

				if passThrough {
					observations = append(observations, map[string]interface{}{
						"client": pkg, "verb": verb, "namespace": ns, "path": r.Path,
						"note":   fmt.Sprintf("%s is cluster-scoped: the namespace is passed through; a real API server answers 404 to this path, the only served path is %s/%s", exp.resource, map[bool]string{false: exp.prefix, true: exp.prefix + "/watch"}[verb == "watch"], exp.resource),
						"judged": map[bool]string{false: "conforms to the literal text (resource of its own type in the requested namespace)", true: "violation (StrictClusterScoped)"}[StrictClusterScoped],
					})
				}
				if (pkg == "pod" && ((verb == "list" && ns == "") || (verb == "watch" && ns == "ns1"))) ||
					(pkg == "ingress" && verb == "list" && ns == "ns1") ||
					(pkg == "job" && verb == "watch" && ns == "") ||
					(pkg == "node" && verb == "list" && ns == "ns1") {
					res.Samples = append(res.Samples, fmt.Sprintf("%s: %s %s query %s -> %s", id, r.Method, r.Path, fmtQuery(r.Query), typeName(gotType)))
				}
			}
			// lifecycle: List and Watch run on the CALLER's context - when the server hangs, cancelling it ends the call
			// (the controller's shutdown relies on it).  The bound is generous wall-clock time, only reached on a defect.
			for _, verb := range []string{"list", "watch"} {
				res.Distinct++
				rt.mu.Lock()
				rt.hang = true
				rt.mu.Unlock()
				cctx, cancel := context.WithCancel(ctx)
				returned := make(chan struct{})
				go func() {
					defer close(returned)
					if verb == "list" {
						c.List(cctx, metav1.ListOptions{})
					} else if w, err := c.Watch(cctx, metav1.ListOptions{ResourceVersion: "42", Watch: true}); err == nil && w != nil {
						w.Stop()
					}
				}()
				time.Sleep(20 * time.Millisecond)
				cancel()
				cmp()
				select {
				case <-returned:
				case <-time.After(ctxWait):
					ctxWait = time.Second // one such finding is enough to wait for at length
					viol(fmt.Sprintf("%s %s %s ignores the caller's context", pkg, verb, nsTag), fmt.Sprintf("%s %s %s: the server accepted the request and never answered; the caller cancelled its context and the call had not returned 20 s later", pkg, verb, nsTag))
				}
				rt.mu.Lock()
				rt.hang = false
				rt.mu.Unlock()
				rt.take()
			}
		}
	}

	res.Complete = complete
	res.Coverage["clients"] = len(pkgs)
	res.Coverage["requests"] = requests
	res.Coverage["strict_cluster_scoped"] = StrictClusterScoped
	res.Coverage["cluster_scoped_with_namespace"] = observations
	res.Note = "real kubernetes.Clientset over a recording http.RoundTripper (no socket); expected method/path/query come from a hand-written table keyed by the Go object type of each package (result type of its Event.Resource()); the transport answers like an API server would for the path that was asked (list kind of that path), so a client pointed at another group/version also fails the returned-type comparison"
	if len(pkgs) != 12 {
		res.Note += fmt.Sprintf("; NOTE: C20 speaks of 12 typed packages, %d were enumerated", len(pkgs))
	}
	return res
}

// typeName renders a (pointer to) named type with its full import path.
func typeName(t reflect.Type) string {
	if t == nil {
		return "<nil>"
	}
	if t.Kind() == reflect.Ptr {
		return "*" + typeName(t.Elem())
	}
	if t.PkgPath() == "" {
		return t.String()
	}
	return t.PkgPath() + "." + t.Name()
}

// metaListAccessor returns the resourceVersion of a decoded list object.
func metaListAccessor(obj interface{}) (string, error) {
	if l, ok := obj.(metav1.ListMetaAccessor); ok {
		return l.GetListMeta().GetResourceVersion(), nil
	}
	return "", fmt.Errorf("not a list")
}
