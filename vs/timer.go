//go:build !vsnative

package vs

import (
	"fmt"
	"strings"
	"time"
)

// Timer is the model of time.Timer / time.AfterFunc on the virtual clock.
type Timer struct {
	name        string
	hid         H
	h           H // history hash (state changing operations)
	active      bool
	deadline    int64
	C           chan time.Time
	c           *Chan
	fn          func()
	fires       int
	idleOnly    bool   // harness observer timer: fires only when no other transition is enabled
	armedAtFire int    // idleOnly: how many OTHER timers were armed at the quiescent instant it fired
	creator     string // name of the goroutine that armed it
}

func (t *Timer) stateHash() H {
	a := uint64(0)
	if t.active {
		a = uint64(t.deadline)<<1 | 1
	}
	return Mix(t.hid, t.h.A, t.h.B, a)
}

func (s *Sched) newTimer(d time.Duration, fn func()) *Timer {
	if s.aborting {
		return &Timer{C: make(chan time.Time, 1)}
	}
	o := &op{kind: opLocal, tag: 0x7001}
	s.do(o)
	g := s.cur
	s.bump(g, uint64(s.clock), uint64(d))
	t := &Timer{name: fmt.Sprintf("t%s#%d", g.path, g.nmake), fn: fn, creator: g.name}
	t.hid = Mix(g.chain, 0x71, uint64(g.nmake))
	if fn == nil {
		t.C = make(chan time.Time, 1)
		t.c = s.register(chanPtr(t.C), 1, ".C")
		t.c.tm = t
	} else {
		g.nmake++
	}
	if d < 0 {
		d = 0
	}
	t.active = true
	t.deadline = s.clock + int64(d)
	s.timers = append(s.timers, t)
	return t
}

func NewTimer(d time.Duration) *Timer {
	s := current
	if s == nil {
		EngineError("NewTimer outside Execute")
	}
	return s.newTimer(d, nil)
}

func AfterFunc(d time.Duration, fn func()) *Timer {
	s := current
	if s == nil {
		EngineError("AfterFunc outside Execute")
	}
	return s.newTimer(d, fn)
}

func (s *Sched) fire(t *Timer) {
	if t.deadline > s.clock {
		s.clock = t.deadline
	}
	t.active = false
	t.fires++
	if t.idleOnly {
		t.armedAtFire = s.PendingTimers()
	}
	t.h = Mix(t.h, 0x72, uint64(t.fires), uint64(s.clock))
	if t.fn != nil {
		gname := "afterfunc:" + t.name
		if strings.HasPrefix(t.creator, "lib:") {
			// a timer callback armed by a library goroutine is a library goroutine (leak oracles count it)
			gname = "lib:afterfunc(" + t.creator + ")"
		}
		g := &G{seq: len(s.gs), name: gname, wake: make(chan struct{})}
		g.path = fmt.Sprintf("%s.f%d", t.name, t.fires)
		g.chain = Mix(t.hid, 0x73, uint64(t.fires), t.h.A)
		s.fp = s.fp.add(g.chain)
		s.gs = append(s.gs, g)
		s.runq = append(s.runq, g)
		go s.gmain(g, t.fn)
		return
	}
	if len(t.c.buf) < 1 {
		t.c.sendSeq++
		t.c.buf = append(t.c.buf, slot{time.Unix(0, s.clock), Mix(t.hid, 0x74, uint64(t.fires), t.h.A)})
	}
}

// Stop has the semantics of (*time.Timer).Stop.
func (t *Timer) Stop() bool {
	s := current
	if s == nil || s.aborting {
		return false
	}
	o := &op{kind: opLocal, tag: 0x7002}
	s.do(o)
	sh := t.stateHash()
	nb := 0
	if t.c != nil {
		nb = len(t.c.buf)
	}
	s.bump(s.cur, sh.A, sh.B, uint64(nb))
	was := t.active
	t.active = false
	if s.cfg.Timer123 && t.c != nil && len(t.c.buf) > 0 {
		t.c.buf = t.c.buf[:0]
		t.c.recvSeq++
		was = true
	}
	t.h = MixH(Mix(t.h, 0x75), s.cur.chain)
	return was
}

// Reset has the semantics of (*time.Timer).Reset.
func (t *Timer) Reset(d time.Duration) bool {
	s := current
	if s == nil || s.aborting {
		return false
	}
	o := &op{kind: opLocal, tag: 0x7003}
	s.do(o)
	sh := t.stateHash()
	nb := 0
	if t.c != nil {
		nb = len(t.c.buf)
	}
	s.bump(s.cur, sh.A, sh.B, uint64(nb))
	was := t.active
	if s.cfg.Timer123 && t.c != nil && len(t.c.buf) > 0 {
		t.c.buf = t.c.buf[:0]
		t.c.recvSeq++
		was = true
	}
	if d < 0 {
		d = 0
	}
	t.active = true
	t.deadline = s.clock + int64(d)
	t.h = MixH(Mix(t.h, 0x76, uint64(t.deadline)), s.cur.chain)
	return was
}

// Now returns the virtual clock.
func Now() time.Time {
	s := current
	if s == nil || s.aborting {
		return time.Unix(0, 0)
	}
	o := &op{kind: opLocal, tag: 0x7004}
	s.do(o)
	s.bump(s.cur, uint64(s.clock))
	return time.Unix(0, s.clock)
}

// NowNoStep reads the virtual clock without a scheduling point (harness
// logging only: the value must not influence control flow).
func NowNoStep() int64 {
	s := current
	if s == nil {
		return 0
	}
	return s.clock
}

// PendingTimers reports how many timers are armed (oracle use at quiescence).
func (s *Sched) PendingTimers() int {
	n := 0
	for _, t := range s.timers {
		if t.active {
			n++
		}
	}
	return n
}

// ClockHere reads the virtual clock at the instant the running goroutine's
// last operation completed, without a scheduling point; the value is folded
// into the goroutine's history so that state matching stays exact.
func ClockHere() int64 {
	s := current
	if s == nil || s.aborting || s.cur == nil {
		return 0
	}
	s.bump(s.cur, 0x77, uint64(s.clock))
	return s.clock
}

// Note folds harness observations of shared state into the running
// goroutine's history (no scheduling point).
func Note(vals ...uint64) {
	s := current
	if s == nil || s.aborting || s.cur == nil {
		return
	}
	s.bump(s.cur, append([]uint64{0x78}, vals...)...)
}

// SleepIdle blocks the calling (harness) goroutine until virtual time has
// advanced by d AND nothing else can happen: unlike a library timer, which may
// fire arbitrarily late relative to computation but also arbitrarily early
// relative to slow goroutines, an observer wants to look at the system once
// it is quiescent at that time.
func SleepIdle(d time.Duration) { SleepIdleArmed(d) }

// SleepIdleArmed is SleepIdle and reports how many other timers were armed at the quiescent instant the observer
// was released (0 = the system can make no further progress by itself: nothing enabled and nothing scheduled).
func SleepIdleArmed(d time.Duration) int {
	s := current
	if s == nil || s.aborting {
		return 0
	}
	t := s.newTimer(d, nil)
	t.idleOnly = true
	Recv(t.C)
	return t.armedAtFire
}
