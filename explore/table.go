package explore

import (
	"fmt"
	"os"
	"sync/atomic"
	"syscall"
	"unsafe"

	"verif/vs"
)

// Table is a lock-free open-addressing map from 111-bit state fingerprints to
// (budget, next unclaimed alternative) in a file mapped MAP_SHARED, so that
// all worker processes of one scenario share one visited set and hand out the
// outgoing transitions of every state exactly once (work sharing at the
// granularity of single transitions).
type Table struct {
	words []uint64
	mask  uint64
	data  []byte
	Full  bool
}

func OpenTable(path string, bits uint) (*Table, error) {
	n := uint64(1) << bits
	size := int64(n * 16)
	f, err := os.OpenFile(path, os.O_RDWR|os.O_CREATE, 0o644)
	if err != nil {
		return nil, err
	}
	defer f.Close()
	if st, err := f.Stat(); err == nil && st.Size() != size {
		if err := f.Truncate(size); err != nil {
			return nil, err
		}
	}
	data, err := syscall.Mmap(int(f.Fd()), 0, int(size), syscall.PROT_READ|syscall.PROT_WRITE, syscall.MAP_SHARED)
	if err != nil {
		return nil, fmt.Errorf("mmap: %v", err)
	}
	words := unsafe.Slice((*uint64)(unsafe.Pointer(&data[0])), n*2)
	return &Table{words: words, mask: n - 1, data: data}, nil
}

func NewLocalTable(bits uint) *Table {
	n := uint64(1) << bits
	return &Table{words: make([]uint64, n*2), mask: n - 1}
}

func (t *Table) Close() {
	if t.data != nil {
		syscall.Munmap(t.data)
		t.data = nil
	}
}

const noSlot = ^uint64(0)

func allowed(budget, n int) int {
	if budget > 0 {
		return n
	}
	return 1
}

// Claim registers that the caller stands in state h with the given deviation
// budget (S1 passes a constant large budget) and n enabled transitions.  It
// returns the alternative k to explore (0 = default transition) under budget b
// (b >= budget: the largest budget the state has been reached with), or
// prune=true when every alternative is already taken by somebody.
func (t *Table) Claim(h vs.H, budget, n int) (k, b int, slot uint64, fresh, prune bool) {
	a := h.A | 1
	bkey := h.B &^ 0xffff
	if n > 250 {
		n = 250
	}
	i := (h.A >> 1) & t.mask
	for probe := 0; probe < 1<<14; probe++ {
		w0 := &t.words[2*i]
		w1 := &t.words[2*i+1]
		cur := atomic.LoadUint64(w0)
		if cur == 0 {
			if atomic.CompareAndSwapUint64(w0, 0, a) {
				atomic.StoreUint64(w1, bkey|uint64(budget+1)<<8|1)
				return 0, budget, i, true, false
			}
			cur = atomic.LoadUint64(w0)
		}
		if cur == a {
			v := atomic.LoadUint64(w1)
			for spins := 0; v == 0 && spins < 10000000; spins++ {
				v = atomic.LoadUint64(w1)
			}
			if v&^0xffff == bkey {
				for {
					rb := int(v>>8&0xff) - 1
					next := int(v & 0xff)
					if budget > rb {
						// new epoch: the state is re-expanded with the larger budget
						if atomic.CompareAndSwapUint64(w1, v, bkey|uint64(budget+1)<<8|1) {
							return 0, budget, i, false, false
						}
					} else {
						if next >= allowed(rb, n) {
							return 0, rb, i, false, true
						}
						if atomic.CompareAndSwapUint64(w1, v, v+1) {
							return next, rb, i, false, false
						}
					}
					v = atomic.LoadUint64(w1)
				}
			}
		}
		i = (i + 1) & t.mask
	}
	t.Full = true
	return 0, budget, noSlot, true, false
}

// ClaimNext takes the next unclaimed alternative of the state in slot, as long
// as the state is still in the epoch of budget b.
func (t *Table) ClaimNext(slot uint64, b, n int) (int, bool) {
	if n > 250 {
		n = 250
	}
	w1 := &t.words[2*slot+1]
	for {
		v := atomic.LoadUint64(w1)
		rb := int(v>>8&0xff) - 1
		if rb != b {
			return 0, false // somebody re-expands the state with a larger budget
		}
		next := int(v & 0xff)
		if next >= allowed(rb, n) {
			return 0, false
		}
		if atomic.CompareAndSwapUint64(w1, v, v+1) {
			return next, true
		}
	}
}

// Count returns the number of states in the table.
func (t *Table) Count() int64 {
	var n int64
	for i := uint64(0); i <= t.mask; i++ {
		if t.words[2*i] != 0 {
			n++
		}
	}
	return n
}
