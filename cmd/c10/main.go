package main

import (
	"verif/harness/c10"
	"verif/runner"
)

func main() { runner.Main(c10.Property()) }
