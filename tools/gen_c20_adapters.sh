#!/bin/bash
# regenerates harness/c20/adapter_<pkg>.go from adapter.go.tmpl
cd /verif/harness/c20
gen() { # pkg objtype import
  sed -e "s#PKG#$1#g" -e "s#OBJTYPE#$2#g" -e "s#OBJIMPORT#$3#g" adapter.go.tmpl > adapter_$1.go
}
gen pod corev1.Pod 'corev1 "k8s.io/api/core/v1"'
gen service corev1.Service 'corev1 "k8s.io/api/core/v1"'
gen secret corev1.Secret 'corev1 "k8s.io/api/core/v1"'
gen node corev1.Node 'corev1 "k8s.io/api/core/v1"'
gen event corev1.Event 'corev1 "k8s.io/api/core/v1"'
gen replicationcontroller corev1.ReplicationController 'corev1 "k8s.io/api/core/v1"'
gen ingress networkingv1beta1.Ingress 'networkingv1beta1 "k8s.io/api/networking/v1beta1"'
gen job batchv1.Job 'batchv1 "k8s.io/api/batch/v1"'
gen daemonset appsv1.DaemonSet 'appsv1 "k8s.io/api/apps/v1"'
gen deployment appsv1.Deployment 'appsv1 "k8s.io/api/apps/v1"'
gen replicaset appsv1.ReplicaSet 'appsv1 "k8s.io/api/apps/v1"'
gen statefulset appsv1.StatefulSet 'appsv1 "k8s.io/api/apps/v1"'
gofmt -w adapter_*.go
