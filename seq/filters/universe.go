// Package filters holds the exhaustive-enumeration checks C17 (filter equality is sound),
// C18 (combinators implement boolean / label-selector semantics) and C19 (workload selection
// filters follow Kubernetes ownership semantics).
//
// universe.go: the shared finite universes. Every filter is described by a Term of our own AST;
// a Term knows how to build the real library filter (a fresh, independent constructor call per
// Build) and carries a reference predicate written from the property text only (it never calls
// into /repo/filter or /repo/types/*/filter.go and does not use k8s' selector matching).
package filters

import (
	"fmt"
	"runtime"
	"sort"
	"strings"
	"sync"
	"sync/atomic"

	"github.com/boz/kcache/filter"
	"github.com/boz/kcache/nsname"
	"github.com/boz/kcache/types/daemonset"
	"github.com/boz/kcache/types/deployment"
	"github.com/boz/kcache/types/event"
	"github.com/boz/kcache/types/ingress"
	"github.com/boz/kcache/types/job"
	"github.com/boz/kcache/types/pod"
	"github.com/boz/kcache/types/replicaset"
	"github.com/boz/kcache/types/replicationcontroller"
	"github.com/boz/kcache/types/service"
	"github.com/boz/kcache/types/statefulset"
	appsv1 "k8s.io/api/apps/v1"
	batchv1 "k8s.io/api/batch/v1"
	corev1 "k8s.io/api/core/v1"
	netv1b1 "k8s.io/api/networking/v1beta1"
	metav1 "k8s.io/apimachinery/pkg/apis/meta/v1"
	"k8s.io/apimachinery/pkg/labels"
	"k8s.io/apimachinery/pkg/selection"
)

const (
	K1 = "k1"
	K2 = "k2"
)

// ---------------------------------------------------------------------------------------------
// Reference model of Kubernetes label selectors (set-based semantics), written from the
// Kubernetes documentation: In / NotIn / Exists / DoesNotExist; "=", "==" are In with one value,
// "!=" is NotIn with one value; NotIn and DoesNotExist match objects that lack the key; a
// selector is the conjunction of its requirements; the empty selector matches everything, the
// nil (absent) LabelSelector matches nothing.

type Req struct {
	Key, Op string // Op: In NotIn Exists DoesNotExist = == !=
	Vals    []string
}

type Sel struct {
	Nothing bool
	Reqs    []Req
	// Via: how the empty (match-everything) selector is obtained: "" labels.Everything(), "new" labels.NewSelector(),
	// "parse" labels.Parse("") (they differ in representation - nil vs empty requirement list - not in meaning)
	Via string
}

func (r Req) norm() Req {
	switch r.Op {
	case "=", "==":
		r.Op = "In"
	case "!=":
		r.Op = "NotIn"
	}
	return r
}

func (s Sel) Matches(l map[string]string) bool {
	if s.Nothing {
		return false
	}
	for _, r := range s.Reqs {
		r = r.norm()
		v, has := l[r.Key]
		in := false
		for _, x := range r.Vals {
			in = in || (has && x == v)
		}
		switch r.Op {
		case "In":
			if !in {
				return false
			}
		case "NotIn":
			if in {
				return false
			}
		case "Exists":
			if !has {
				return false
			}
		case "DoesNotExist":
			if has {
				return false
			}
		default:
			panic("bad op " + r.Op)
		}
	}
	return true
}

func (r Req) String() string {
	if len(r.Vals) == 0 {
		return r.Key + " " + r.Op
	}
	return fmt.Sprintf("%s %s %v", r.Key, r.Op, r.Vals)
}

// Canon is the canonical denotation of a selector (requirement order, value order and the
// spelling of equality are irrelevant).
func (s Sel) Canon() string {
	if s.Nothing {
		return "NOTHING"
	}
	var parts []string
	for _, r := range s.Reqs {
		r = r.norm()
		vs := append([]string(nil), r.Vals...)
		sort.Strings(vs)
		parts = append(parts, fmt.Sprintf("%s %s %v", r.Key, r.Op, vs))
	}
	sort.Strings(parts)
	return "{" + strings.Join(parts, "; ") + "}"
}

func selFromMap(m map[string]string) Sel {
	var s Sel
	for _, k := range sortedKeys(m) {
		s.Reqs = append(s.Reqs, Req{k, "In", []string{m[k]}})
	}
	return s
}

// LS is our description of a metav1.LabelSelector; a nil *LS is the nil selector.
type LS struct {
	ML    map[string]string
	Exprs []Req // In NotIn Exists DoesNotExist only
}

func (l *LS) sel() Sel {
	if l == nil {
		return Sel{Nothing: true}
	}
	s := selFromMap(l.ML)
	s.Reqs = append(s.Reqs, l.Exprs...)
	return s
}

func (l *LS) api() *metav1.LabelSelector {
	if l == nil {
		return nil
	}
	out := &metav1.LabelSelector{MatchLabels: copyMap(l.ML)}
	for _, e := range l.Exprs {
		out.MatchExpressions = append(out.MatchExpressions, metav1.LabelSelectorRequirement{
			Key: e.Key, Operator: metav1.LabelSelectorOperator(e.Op), Values: append([]string(nil), e.Vals...)})
	}
	return out
}

func (l *LS) String() string {
	if l == nil {
		return "(nil)"
	}
	var parts []string
	if l.ML != nil {
		parts = append(parts, "matchLabels"+mapStr(l.ML))
	}
	for _, e := range l.Exprs {
		parts = append(parts, e.String())
	}
	return "{" + strings.Join(parts, "; ") + "}"
}

func (l *LS) opsClass() string {
	if l == nil {
		return "nil selector"
	}
	seen := map[string]bool{}
	if len(l.ML) > 0 {
		seen["matchLabels"] = true
	}
	for _, e := range l.Exprs {
		seen[e.Op] = true
	}
	if len(seen) == 0 {
		return "empty selector"
	}
	var ks []string
	for k := range seen {
		ks = append(ks, k)
	}
	sort.Strings(ks)
	return strings.Join(ks, "+")
}

// ---------------------------------------------------------------------------------------------
// small helpers

func sortedKeys(m map[string]string) []string {
	ks := make([]string, 0, len(m))
	for k := range m {
		ks = append(ks, k)
	}
	sort.Strings(ks)
	return ks
}

func copyMap(m map[string]string) map[string]string {
	if m == nil {
		return nil
	}
	out := make(map[string]string, len(m))
	for k, v := range m {
		out[k] = v
	}
	return out
}

func mapStr(m map[string]string) string {
	if m == nil {
		return "(nil)"
	}
	var parts []string
	for _, k := range sortedKeys(m) {
		parts = append(parts, k+"="+m[k])
	}
	return "{" + strings.Join(parts, ",") + "}"
}

// labelMapsE is labelMaps with the empty string as an additional VALUE (legal in Kubernetes: a marker label).
func labelMapsE(vals []string) []map[string]string {
	out := labelMaps(append(append([]string{}, vals...), "\x00"))
	for _, m := range out {
		for k, v := range m {
			if v == "\x00" {
				m[k] = ""
			}
		}
	}
	return out
}

// labelMaps returns every map assigning to each of K1, K2 either nothing or one of vals;
// the first element is the empty (non-nil) map.
func labelMaps(vals []string) []map[string]string {
	opts := append([]string{""}, vals...)
	var out []map[string]string
	for _, a := range opts {
		for _, b := range opts {
			m := map[string]string{}
			if a != "" {
				m[K1] = a
			}
			if b != "" {
				m[K2] = b
			}
			out = append(out, m)
		}
	}
	return out
}

func workers() int {
	n := runtime.NumCPU()
	if n > 16 {
		n = 16
	}
	if n < 1 {
		n = 1
	}
	return n
}

// parFor calls fn(worker, i) for every i in [0,n), in parallel, each i exactly once.
func parFor(n int, fn func(w, i int)) {
	var next int64
	var wg sync.WaitGroup
	for w := 0; w < workers(); w++ {
		wg.Add(1)
		go func(w int) {
			defer wg.Done()
			for {
				i := int(atomic.AddInt64(&next, 1)) - 1
				if i >= n {
					return
				}
				fn(w, i)
			}
		}(w)
	}
	wg.Wait()
}

// BV is a bit-vector over an object universe.
type BV []uint64

func newBV(n int) BV        { return make(BV, (n+63)/64) }
func (b BV) set(i int)      { b[i/64] |= 1 << (uint(i) % 64) }
func (b BV) get(i int) bool { return b[i/64]&(1<<(uint(i)%64)) != 0 }
func (b BV) key() string {
	out := make([]byte, 0, 8*len(b))
	for _, w := range b {
		for k := 0; k < 8; k++ {
			out = append(out, byte(w>>(8*uint(k))))
		}
	}
	return string(out)
}
func (b BV) firstDiff(c BV) int {
	for w := range b {
		if x := b[w] ^ c[w]; x != 0 {
			for k := 0; k < 64; k++ {
				if x&(1<<uint(k)) != 0 {
					return w*64 + k
				}
			}
		}
	}
	return -1
}
func (b BV) count() int {
	n := 0
	for _, w := range b {
		for ; w != 0; w &= w - 1 {
			n++
		}
	}
	return n
}

// ---------------------------------------------------------------------------------------------
// Objects

func meta(ns, name string, l map[string]string) metav1.ObjectMeta {
	if len(l) == 0 {
		l = nil
	}
	// metadata no filter may depend on: a generation, annotations reusing the label keys with other values, and on
	// the objects named "x" a deletion timestamp, a finalizer and a controller owner
	m := metav1.ObjectMeta{Namespace: ns, Name: name, Labels: copyMap(l), Generation: 7, Annotations: map[string]string{K1: "9", K2: "1"}}
	if name == "x" {
		t := metav1.Unix(1000, 0)
		yes := true
		m.DeletionTimestamp = &t
		m.Finalizers = []string{"verif/hold"}
		m.OwnerReferences = []metav1.OwnerReference{{APIVersion: "apps/v1", Kind: "ReplicaSet", Name: "y", UID: "u-y", Controller: &yes}}
	}
	return m
}

func mkPod(ns, name string, l map[string]string, node string) *corev1.Pod {
	return &corev1.Pod{ObjectMeta: meta(ns, name, l), Spec: corev1.PodSpec{NodeName: node}}
}

func mkSvc(ns, name string, l, selector map[string]string) *corev1.Service {
	return &corev1.Service{ObjectMeta: meta(ns, name, l), Spec: corev1.ServiceSpec{Selector: copyMap(selector)}}
}

func mkEvent(ns, name string, l map[string]string, ikind, ins, iname string) *corev1.Event {
	return &corev1.Event{ObjectMeta: meta(ns, name, l), InvolvedObject: corev1.ObjectReference{Kind: ikind, Namespace: ins, Name: iname}}
}

func mkSecret(ns, name string, l map[string]string) *corev1.Secret {
	return &corev1.Secret{ObjectMeta: meta(ns, name, l)}
}

func descObj(o metav1.Object) string {
	base := fmt.Sprintf("%s/%s labels=%s", o.GetNamespace(), o.GetName(), mapStr(o.GetLabels()))
	switch x := o.(type) {
	case *corev1.Pod:
		return fmt.Sprintf("Pod %s node=%q", base, x.Spec.NodeName)
	case *corev1.Service:
		return fmt.Sprintf("Service %s selector=%s", base, mapStr(x.Spec.Selector))
	case *corev1.Event:
		r := x.InvolvedObject
		return fmt.Sprintf("Event %s involved=%s:%s/%s", base, r.Kind, r.Namespace, r.Name)
	case *corev1.Secret:
		return "Secret " + base
	case *corev1.Node:
		return "Node " + base
	}
	return fmt.Sprintf("%T %s", o, base)
}

func deepCopyObj(o metav1.Object) metav1.Object {
	switch x := o.(type) {
	case *corev1.Pod:
		return x.DeepCopy()
	case *corev1.Service:
		return x.DeepCopy()
	case *corev1.Event:
		return x.DeepCopy()
	case *corev1.Secret:
		return x.DeepCopy()
	case *corev1.Node:
		return x.DeepCopy()
	}
	panic(fmt.Sprintf("deepCopyObj: %T", o))
}

// ---------------------------------------------------------------------------------------------
// Terms

type Term struct {
	Ctor  string // constructor: Null All Not And Or NSName Labels LabelSelector Selector FN Node Involved SelMatch Pods[kind] Services
	Name  string // unique printable form
	Key   string // atoms: canonical denotation of the arguments (same Key <=> same intended meaning)
	Class string // atoms: coarse class of the arguments (used in violation signatures)
	Kids  []*Term
	Depth int  // atoms 1, combinator = 1 + max(kids) (empty And/Or: 2)
	HasFN bool // contains a non-comparable leaf
	Lvl   int  // atoms: 0 core set, 1 small set, 2 medium set, 3 large set, 4 full set only
	mk    func() filter.Filter
	ref   func(metav1.Object) bool
}

// Build constructs the real filter by fresh constructor calls (nothing is shared between calls).
func (t *Term) Build() filter.Filter {
	switch t.Ctor {
	case "Not":
		return filter.Not(t.Kids[0].Build())
	case "And", "Or":
		kids := make([]filter.Filter, len(t.Kids))
		for i, k := range t.Kids {
			kids[i] = k.Build()
		}
		if t.Ctor == "And" {
			return filter.And(kids...)
		}
		return filter.Or(kids...)
	}
	return t.mk()
}

// Ref is the reference semantics: booleans by structural recursion, atoms by their own predicate.
func (t *Term) Ref(o metav1.Object) bool {
	switch t.Ctor {
	case "Not":
		return !t.Kids[0].Ref(o)
	case "And":
		for _, k := range t.Kids {
			if !k.Ref(o) {
				return false
			}
		}
		return true
	case "Or":
		for _, k := range t.Kids {
			if k.Ref(o) {
				return true
			}
		}
		return false
	}
	return t.ref(o)
}

// Shape is the term with all arguments erased, e.g. "And(NSName,Not(Labels))".
func (t *Term) Shape() string {
	if len(t.Kids) == 0 {
		if t.Ctor == "And" || t.Ctor == "Or" {
			return t.Ctor + "()"
		}
		return t.Ctor
	}
	parts := make([]string, len(t.Kids))
	for i, k := range t.Kids {
		parts[i] = k.Shape()
	}
	return t.Ctor + "(" + strings.Join(parts, ",") + ")"
}

func comb(ctor string, kids ...*Term) *Term {
	t := &Term{Ctor: ctor, Kids: kids, Depth: 1}
	names := make([]string, len(kids))
	for i, k := range kids {
		names[i] = k.Name
		if k.Depth > t.Depth-1 {
			t.Depth = k.Depth + 1
		}
		t.HasFN = t.HasFN || k.HasFN
	}
	if len(kids) == 0 {
		t.Depth = 2
	}
	t.Name = ctor + "(" + strings.Join(names, ", ") + ")"
	return t
}

// closure returns Not/And/Or (arity 0..2) applied to base.
func closure(base []*Term) []*Term { return closure2(base, base) }

// closure2: arity 0 and 1 over unary, arity 2 over binary.
func closure2(unary, binary []*Term) []*Term {
	out := []*Term{comb("And"), comb("Or")}
	for _, t := range unary {
		out = append(out, comb("Not", t), comb("And", t), comb("Or", t))
	}
	for _, t := range binary {
		for _, u := range binary {
			out = append(out, comb("And", t, u), comb("Or", t, u))
		}
	}
	return out
}

func dedupe(ts []*Term) []*Term {
	seen := map[string]bool{}
	var out []*Term
	for _, t := range ts {
		if !seen[t.Name] {
			seen[t.Name] = true
			out = append(out, t)
		}
	}
	return out
}

// ---- atoms of package filter

func tNull() *Term {
	return &Term{Ctor: "Null", Name: "Null", Key: "T", Depth: 1, mk: func() filter.Filter { return filter.Null() }, ref: func(metav1.Object) bool { return true }}
}

func tAll() *Term {
	return &Term{Ctor: "All", Name: "All", Key: "F", Depth: 1, mk: func() filter.Filter { return filter.All() }, ref: func(metav1.Object) bool { return false }}
}

func tFN(name string, p func(metav1.Object) bool) *Term {
	return &Term{Ctor: "FN", Name: "FN(" + name + ")", Key: name, Depth: 1, HasFN: true, Lvl: 1, ref: p,
		mk: func() filter.Filter { return opaqueFN(p) }}
}

// opaqueFN: every FN filter of the universe is a closure of ONE function literal (not inlined, so the compiler
// cannot clone it per call site): the values share their code pointer and differ in what they capture only - an
// equality that looks at the function pointer must not take them for equal.
//
//go:noinline
func opaqueFN(p func(metav1.Object) bool) filter.Filter {
	return filter.FN(func(o metav1.Object) bool { return p(o) })
}

func idStr(id nsname.NSName) string {
	s := func(x string) string {
		if x == "" {
			return "*"
		}
		return x
	}
	return s(id.Namespace) + "/" + s(id.Name)
}

// tNSName: accepts iff some entry matches namespace and name, an empty field being a wildcard.
// Entries with both fields empty are outside the contract and must not be passed.
func tNSName(ids ...nsname.NSName) *Term {
	ids = append([]nsname.NSName(nil), ids...)
	names := make([]string, len(ids))
	full, part := false, false
	set := map[nsname.NSName]bool{}
	for i, id := range ids {
		if id.Namespace == "" && id.Name == "" {
			panic("NSName entry with both fields empty is outside the contract")
		}
		names[i] = idStr(id)
		set[id] = true
		if id.Namespace == "" || id.Name == "" {
			part = true
		} else {
			full = true
		}
	}
	// canonical denotation: entries not subsumed by a wildcard entry, sorted
	var canon []string
	for id := range set {
		if id.Namespace != "" && id.Name != "" && (set[nsname.NSName{Namespace: id.Namespace}] || set[nsname.NSName{Name: id.Name}]) {
			continue
		}
		canon = append(canon, idStr(id))
	}
	sort.Strings(canon)
	class := map[[2]bool]string{{false, false}: "no entries", {true, false}: "full entries", {false, true}: "wildcard entries", {true, true}: "full and wildcard entries"}[[2]bool{full, part}]
	return &Term{Ctor: "NSName", Name: "NSName(" + strings.Join(names, ",") + ")", Key: strings.Join(canon, ","), Class: class, Depth: 1, Lvl: 3,
		mk: func() filter.Filter { return filter.NSName(append([]nsname.NSName(nil), ids...)...) },
		ref: func(o metav1.Object) bool {
			for _, id := range ids {
				if (id.Namespace == "" || id.Namespace == o.GetNamespace()) && (id.Name == "" || id.Name == o.GetName()) {
					return true
				}
			}
			return false
		}}
}

func tLabels(m map[string]string) *Term {
	s := selFromMap(m)
	class := "non-empty map"
	if len(m) == 0 {
		class = "empty map"
	}
	return &Term{Ctor: "Labels", Name: "Labels" + mapStr(m), Key: s.Canon(), Class: class, Depth: 1, Lvl: 3,
		mk:  func() filter.Filter { return filter.Labels(copyMap(m)) },
		ref: func(o metav1.Object) bool { return s.Matches(o.GetLabels()) }}
}

func tLabelSelector(l *LS) *Term {
	s := l.sel()
	return &Term{Ctor: "LabelSelector", Name: "LabelSelector" + l.String(), Key: s.Canon(), Class: l.opsClass(), Depth: 1, Lvl: 3,
		mk:  func() filter.Filter { return filter.LabelSelector(l.api()) },
		ref: func(o metav1.Object) bool { return s.Matches(o.GetLabels()) }}
}

// tSelector builds a labels.Selector with k8s' own constructors (labels.Everything / Nothing /
// NewRequirement) and hands it to filter.Selector.
func tSelector(s Sel) *Term {
	name, class := "Selector"+s.Canon(), "requirements"
	build := func() labels.Selector {
		if s.Nothing {
			return labels.Nothing()
		}
		if len(s.Reqs) == 0 {
			switch s.Via {
			case "new":
				return labels.NewSelector()
			case "parse":
				p, err := labels.Parse("")
				if err != nil {
					panic(err)
				}
				return p
			}
			return labels.Everything()
		}
		out := labels.NewSelector()
		for _, r := range s.Reqs {
			op := map[string]selection.Operator{"In": selection.In, "NotIn": selection.NotIn, "Exists": selection.Exists,
				"DoesNotExist": selection.DoesNotExist, "=": selection.Equals, "==": selection.DoubleEquals, "!=": selection.NotEquals}[r.Op]
			req, err := labels.NewRequirement(r.Key, op, append([]string(nil), r.Vals...))
			if err != nil {
				panic(err)
			}
			out = out.Add(*req)
		}
		return out
	}
	switch {
	case s.Nothing:
		name, class = "Selector(Nothing)", "Nothing"
	case len(s.Reqs) == 0:
		name, class = "Selector(Everything)", "Everything"
		if s.Via != "" {
			name = "Selector(Everything via " + s.Via + ")"
		}
	default:
		var parts []string
		for _, r := range s.Reqs {
			parts = append(parts, r.String())
		}
		name = "Selector{" + strings.Join(parts, "; ") + "}"
	}
	return &Term{Ctor: "Selector", Name: name, Key: s.Canon(), Class: class, Depth: 1, Lvl: 3,
		mk:  func() filter.Filter { return filter.Selector(build()) },
		ref: func(o metav1.Object) bool { return s.Matches(o.GetLabels()) }}
}

// ---- typed atoms

func tNode(names ...string) *Term {
	names = append([]string(nil), names...)
	set := map[string]bool{}
	for _, n := range names {
		set[n] = true
	}
	var canon []string
	for n := range set {
		canon = append(canon, n)
	}
	sort.Strings(canon)
	return &Term{Ctor: "Node", Name: "NodeFilter(" + strings.Join(names, ",") + ")", Key: strings.Join(canon, ","), Depth: 1, Lvl: 2,
		mk: func() filter.Filter { return pod.NodeFilter(append([]string(nil), names...)...) },
		ref: func(o metav1.Object) bool {
			p, ok := o.(*corev1.Pod)
			return ok && set[p.Spec.NodeName]
		}}
}

func tInvolved(kind, ns, name string) *Term {
	n := fmt.Sprintf("%s:%s/%s", kind, ns, name)
	return &Term{Ctor: "Involved", Name: "InvolvedFilter(" + n + ")", Key: n, Depth: 1, Lvl: 3,
		mk: func() filter.Filter { return event.InvolvedFilter(kind, ns, name) },
		ref: func(o metav1.Object) bool {
			e, ok := o.(*corev1.Event)
			return ok && e.InvolvedObject.Kind == kind && e.InvolvedObject.Namespace == ns && e.InvolvedObject.Name == name
		}}
}

// tSelMatch: accepts the services whose (non-empty) selector is satisfied by the target labels.
func tSelMatch(target map[string]string) *Term {
	return &Term{Ctor: "SelMatch", Name: "SelectorMatchFilter" + mapStr(target), Key: selFromMap(target).Canon(), Depth: 1, Lvl: 3,
		mk: func() filter.Filter { return service.SelectorMatchFilter(copyMap(target)) },
		ref: func(o metav1.Object) bool {
			s, ok := o.(*corev1.Service)
			return ok && len(s.Spec.Selector) > 0 && selFromMap(s.Spec.Selector).Matches(target)
		}}
}

// W describes a workload (service, replication controller, replica set, ...).
// Sel == nil: no selector. For the map-selector kinds (svc, rc) only Sel.ML is used
// (Sel != nil with ML == nil gives an empty non-nil map).
type W struct {
	NS, Name string
	Sel      *LS
	Tmpl     map[string]string // pod template labels, nil = none
}

func (w W) String() string {
	return fmt.Sprintf("%s/%s{selector=%s template=%s}", w.NS, w.Name, w.Sel.String(), mapStr(w.Tmpl))
}

func (w W) selMap() map[string]string {
	if w.Sel == nil {
		return nil
	}
	if w.Sel.ML == nil {
		return map[string]string{}
	}
	return copyMap(w.Sel.ML)
}

func (w W) tmpl() corev1.PodTemplateSpec {
	return corev1.PodTemplateSpec{ObjectMeta: metav1.ObjectMeta{Labels: copyMap(w.Tmpl)}}
}

var podKinds = []string{"svc", "rc", "rs", "deploy", "ds", "sts", "job"}

func mapKind(kind string) bool { return kind == "svc" || kind == "rc" }

// wEffective is the reference reading of the property: the selector that decides which pods of
// the workload's namespace the workload owns. ok=false: the workload selects nothing.
//   - service: its selector; a service without (nil or empty) selector selects nothing;
//   - other kinds: the selector if the workload has one, else the pod template labels.
//     A replication controller's selector is a plain map, "lacking" = nil or empty (the two
//     are indistinguishable on the wire); for LabelSelector kinds "lacking" = nil, an empty
//     non-nil LabelSelector is a selector that matches everything.
func wEffective(kind string, w W) (Sel, bool) {
	switch kind {
	case "svc":
		if w.Sel == nil || len(w.Sel.ML) == 0 {
			return Sel{}, false
		}
		return selFromMap(w.Sel.ML), true
	case "rc":
		if w.Sel == nil || len(w.Sel.ML) == 0 {
			return selFromMap(w.Tmpl), true
		}
		return selFromMap(w.Sel.ML), true
	}
	if w.Sel == nil {
		return selFromMap(w.Tmpl), true
	}
	return w.Sel.sel(), true
}

func podsRef(kind string, ws []W, o metav1.Object) bool {
	p, ok := o.(*corev1.Pod)
	if !ok {
		return false // the property only speaks about pods
	}
	for _, w := range ws {
		if s, ok := wEffective(kind, w); ok && w.NS == p.Namespace && s.Matches(p.Labels) {
			return true
		}
	}
	return false
}

func buildPods(kind string, ws []W) filter.ComparableFilter {
	// (generation set; the workloads of namespace "a" are terminating but still exist: ownership does not depend on it)
	om := func(w W) metav1.ObjectMeta {
		m := metav1.ObjectMeta{Namespace: w.NS, Name: w.Name, Generation: 3}
		if w.NS == "a" {
			t := metav1.Unix(1000, 0)
			m.DeletionTimestamp = &t
		}
		return m
	}
	switch kind {
	case "svc":
		var xs []*corev1.Service
		for _, w := range ws {
			xs = append(xs, &corev1.Service{ObjectMeta: om(w), Spec: corev1.ServiceSpec{Selector: w.selMap()}})
		}
		return service.PodsFilter(xs...)
	case "rc":
		var xs []*corev1.ReplicationController
		for _, w := range ws {
			t := w.tmpl()
			xs = append(xs, &corev1.ReplicationController{ObjectMeta: om(w), Spec: corev1.ReplicationControllerSpec{Selector: w.selMap(), Template: &t}})
		}
		return replicationcontroller.PodsFilter(xs...)
	case "rs":
		var xs []*appsv1.ReplicaSet
		for _, w := range ws {
			xs = append(xs, &appsv1.ReplicaSet{ObjectMeta: om(w), Spec: appsv1.ReplicaSetSpec{Selector: w.Sel.api(), Template: w.tmpl()}})
		}
		return replicaset.PodsFilter(xs...)
	case "deploy":
		var xs []*appsv1.Deployment
		for _, w := range ws {
			xs = append(xs, &appsv1.Deployment{ObjectMeta: om(w), Spec: appsv1.DeploymentSpec{Selector: w.Sel.api(), Template: w.tmpl()}})
		}
		return deployment.PodsFilter(xs...)
	case "ds":
		var xs []*appsv1.DaemonSet
		for _, w := range ws {
			xs = append(xs, &appsv1.DaemonSet{ObjectMeta: om(w), Spec: appsv1.DaemonSetSpec{Selector: w.Sel.api(), Template: w.tmpl()}})
		}
		return daemonset.PodsFilter(xs...)
	case "sts":
		var xs []*appsv1.StatefulSet
		for _, w := range ws {
			xs = append(xs, &appsv1.StatefulSet{ObjectMeta: om(w), Spec: appsv1.StatefulSetSpec{Selector: w.Sel.api(), Template: w.tmpl()}})
		}
		return statefulset.PodsFilter(xs...)
	case "job":
		var xs []*batchv1.Job
		for _, w := range ws {
			xs = append(xs, &batchv1.Job{ObjectMeta: om(w), Spec: batchv1.JobSpec{Selector: w.Sel.api(), Template: w.tmpl()}})
		}
		return job.PodsFilter(xs...)
	}
	panic("kind " + kind)
}

func tPods(kind string, ws ...W) *Term {
	ws = append([]W(nil), ws...)
	names := make([]string, len(ws))
	set := map[string]bool{}
	for i, w := range ws {
		names[i] = w.String()
		if s, ok := wEffective(kind, w); ok {
			set[w.NS+":"+s.Canon()] = true
		}
	}
	var canon []string
	for k := range set {
		canon = append(canon, k)
	}
	sort.Strings(canon)
	return &Term{Ctor: "Pods[" + kind + "]", Name: "PodsFilter[" + kind + "](" + strings.Join(names, ", ") + ")", Key: strings.Join(canon, " | "), Depth: 1, Lvl: 3,
		mk:  func() filter.Filter { return buildPods(kind, ws) },
		ref: func(o metav1.Object) bool { return podsRef(kind, ws, o) }}
}

// Ing describes an ingress: default backend service name ("" = none / resource backend) and,
// per rule, the backend service names of its paths (a nil rule has no HTTP section).
type Ing struct {
	NS, Name string
	HasDef   bool
	Default  string
	Rules    [][]string
}

func (g Ing) String() string {
	d := "none"
	if g.HasDef {
		d = fmt.Sprintf("%q", g.Default)
	}
	return fmt.Sprintf("%s/%s{default=%s rules=%v}", g.NS, g.Name, d, g.Rules)
}

func (g Ing) backends() map[nsname.NSName]bool {
	out := map[nsname.NSName]bool{}
	if g.HasDef && g.Default != "" {
		out[nsname.NSName{Namespace: g.NS, Name: g.Default}] = true
	}
	for _, r := range g.Rules {
		for _, s := range r {
			if s != "" {
				out[nsname.NSName{Namespace: g.NS, Name: s}] = true
			}
		}
	}
	return out
}

func buildServices(gs []Ing) filter.ComparableFilter {
	var xs []*netv1b1.Ingress
	for _, g := range gs {
		x := &netv1b1.Ingress{ObjectMeta: metav1.ObjectMeta{Namespace: g.NS, Name: g.Name}}
		if g.HasDef {
			x.Spec.Backend = &netv1b1.IngressBackend{ServiceName: g.Default}
		}
		for _, r := range g.Rules {
			var rule netv1b1.IngressRule
			if r != nil {
				rule.HTTP = &netv1b1.HTTPIngressRuleValue{}
				for _, s := range r {
					rule.HTTP.Paths = append(rule.HTTP.Paths, netv1b1.HTTPIngressPath{Path: "/" + s, Backend: netv1b1.IngressBackend{ServiceName: s}})
				}
			}
			x.Spec.Rules = append(x.Spec.Rules, rule)
		}
		xs = append(xs, x)
	}
	return ingress.ServicesFilter(xs...)
}

func servicesRef(gs []Ing, o metav1.Object) bool {
	s, ok := o.(*corev1.Service)
	if !ok {
		return false // the property only speaks about services
	}
	for _, g := range gs {
		if g.backends()[nsname.NSName{Namespace: s.Namespace, Name: s.Name}] {
			return true
		}
	}
	return false
}

func tServices(gs ...Ing) *Term {
	gs = append([]Ing(nil), gs...)
	names := make([]string, len(gs))
	set := map[string]bool{}
	for i, g := range gs {
		names[i] = g.String()
		for id := range g.backends() {
			set[id.String()] = true
		}
	}
	var canon []string
	for k := range set {
		canon = append(canon, k)
	}
	sort.Strings(canon)
	return &Term{Ctor: "Services", Name: "ServicesFilter(" + strings.Join(names, ", ") + ")", Key: strings.Join(canon, ","), Depth: 1, Lvl: 3,
		mk:  func() filter.Filter { return buildServices(gs) },
		ref: func(o metav1.Object) bool { return servicesRef(gs, o) }}
}

// ---------------------------------------------------------------------------------------------
// Atom universes

func lvl(t *Term, l int) *Term { t.Lvl = l; return t }

// (the object universes contain objects NAMED "a" and namespaces named "a": one string in both roles)
var nsEntries = []nsname.NSName{{Namespace: "a", Name: "x"}, {Namespace: "a", Name: "y"}, {Namespace: "b", Name: "x"}, {Namespace: "a"}, {Name: "x"}}

// coreAtoms: Null, All, NSName, Labels, LabelSelector, Selector (the constructors of package
// filter whose meaning C18 pins down). Lvl: 0 core, 1 small, 2 medium, 3 large (all of them).
func coreAtoms() []*Term {
	out := []*Term{tNull(), tAll()}
	// NSName: all entry lists of length <= 2 (both orders, duplicates)
	E := nsEntries
	out = append(out, lvl(tNSName(), 2))
	for i, e := range E {
		out = append(out, lvl(tNSName(e), []int{0, 2, 2, 1, 2}[i]))
	}
	small := map[[2]int]int{{4, 2}: 1, {0, 1}: 2, {1, 0}: 2, {0, 0}: 2, {3, 4}: 2, {4, 3}: 2, {0, 3}: 2}
	for i, e := range E {
		for j, f := range E {
			l, ok := small[[2]int{i, j}]
			if !ok {
				l = 3
			}
			out = append(out, lvl(tNSName(e, f), l))
		}
	}
	// Labels: nil + all maps over 2 keys x 2 values and the empty string as a value
	out = append(out, lvl(tLabels(nil), 2))
	for _, m := range labelMapsE([]string{"1", "2"}) {
		l := 3
		switch mapStr(m) {
		case "{k1=1}":
			l = 0
		case "{}":
			l = 1
		case "{k1=1,k2=1}", "{k1=2}", "{k1=}":
			l = 2
		}
		out = append(out, lvl(tLabels(m), l))
	}
	// LabelSelector
	ml := func(kv ...string) map[string]string {
		m := map[string]string{}
		for i := 0; i < len(kv); i += 2 {
			m[kv[i]] = kv[i+1]
		}
		return m
	}
	v := func(xs ...string) []string { return xs }
	for _, x := range []struct {
		l  *LS
		lv int
	}{
		{nil, 1},
		{&LS{}, 2},
		{&LS{ML: ml(K1, "1")}, 2},
		{&LS{ML: ml(K1, "1", K2, "2")}, 3},
		{&LS{Exprs: []Req{{K1, "In", v("1")}}}, 3},
		{&LS{Exprs: []Req{{K1, "In", v("1", "2")}}}, 0},
		{&LS{Exprs: []Req{{K1, "In", v("2", "1")}}}, 2},
		{&LS{Exprs: []Req{{K1, "NotIn", v("1")}}}, 1},
		{&LS{Exprs: []Req{{K1, "NotIn", v("1", "2")}}}, 3},
		{&LS{Exprs: []Req{{K1, "Exists", nil}}}, 2},
		{&LS{Exprs: []Req{{K1, "DoesNotExist", nil}}}, 2},
		{&LS{ML: ml(K1, "1"), Exprs: []Req{{K2, "Exists", nil}}}, 3},
		{&LS{Exprs: []Req{{K1, "In", v("1", "2")}, {K2, "NotIn", v("2")}}}, 3},
		{&LS{ML: ml(K2, "1"), Exprs: []Req{{K1, "DoesNotExist", nil}}}, 3},
		// two requirements on one key (both must hold)
		{&LS{ML: ml(K2, "1"), Exprs: []Req{{K2, "NotIn", v("2")}}}, 2},
		{&LS{Exprs: []Req{{K1, "Exists", nil}, {K1, "NotIn", v("1")}}}, 2},
		{&LS{Exprs: []Req{{K1, "In", v("1", "2")}, {K1, "In", v("2", "3")}}}, 2}, // two positive requirements on one key
	} {
		out = append(out, lvl(tLabelSelector(x.l), x.lv))
	}
	// Selector
	out = append(out,
		lvl(tSelector(Sel{}), 2), lvl(tSelector(Sel{Nothing: true}), 2),
		lvl(tSelector(Sel{Via: "new"}), 2), lvl(tSelector(Sel{Via: "parse"}), 2),
		lvl(tSelector(Sel{Reqs: []Req{{K1, "!=", v("1")}}}), 1),
		lvl(tSelector(Sel{Reqs: []Req{{K1, "=", v("1")}}}), 3),
		lvl(tSelector(Sel{Reqs: []Req{{K1, "==", v("2")}}}), 3),
		lvl(tSelector(Sel{Reqs: []Req{{K2, "Exists", nil}, {K1, "NotIn", v("1", "2")}}}), 3),
		lvl(tSelector(Sel{Reqs: []Req{{K2, "Exists", nil}, {K2, "!=", v("1")}}}), 2),
		lvl(tSelector(Sel{Reqs: []Req{{K2, "In", v("1", "2")}, {K2, "In", v("2", "3")}}}), 2))
	return out
}

func boolInt(b bool) int {
	if b {
		return 1
	}
	return 0
}

// Workload universe (4 per kind, pairwise incomparable selections, distinct names):
// w1 a/{k1=1}, w2 a/{k2 exists | k2=1 for map kinds}, w3 b/{k1=1}, w4 a/no selector, template {k1=2}.
func c17Workloads(kind string) []W {
	w2 := &LS{Exprs: []Req{{K2, "Exists", nil}}}
	if mapKind(kind) {
		w2 = &LS{ML: map[string]string{K2: "1"}}
	}
	return []W{
		{NS: "a", Name: "w1", Sel: &LS{ML: map[string]string{K1: "1"}}},
		{NS: "a", Name: "w2", Sel: w2},
		{NS: "b", Name: "w3", Sel: &LS{ML: map[string]string{K1: "1"}}},
		{NS: "a", Name: "w4", Tmpl: map[string]string{K1: "2"}},
	}
}

func c17Ingresses() []Ing {
	return []Ing{
		{NS: "a", Name: "i1", HasDef: true, Default: "x"},
		{NS: "a", Name: "i2", Rules: [][]string{{"x", "y"}}},
		{NS: "b", Name: "i3", HasDef: true, Default: "x", Rules: [][]string{nil, {"y"}}},
		{NS: "a", Name: "i4", HasDef: true, Default: "", Rules: [][]string{{"z"}}},
		{NS: "a", Name: "i5", Rules: [][]string{{"x", ""}}}, // a path whose backend names no service (resource backend)
	}
}

// typedAtoms: FN, NodeFilter, InvolvedFilter, SelectorMatchFilter, the seven PodsFilters, ServicesFilter.
func typedAtoms() []*Term {
	out := []*Term{
		lvl(tFN("name==x", func(o metav1.Object) bool { return o.GetName() == "x" }), 0),
		lvl(tFN("k1==1", func(o metav1.Object) bool { return o.GetLabels()[K1] == "1" }), 2),
		lvl(tNode(), 2), lvl(tNode("n1"), 0), lvl(tNode("n2"), 2), lvl(tNode("n1", "n2"), 2), lvl(tNode("n2", "n1"), 2), lvl(tNode("n1", "n1"), 3),
	}
	i := 0
	for _, k := range []string{"Pod", "Service"} {
		for _, ns := range []string{"a", "b"} {
			for _, n := range []string{"x", "y"} {
				out = append(out, lvl(tInvolved(k, ns, n), 2+boolInt(i != 0 && i != 3 && i != 4)))
				i++
			}
		}
	}
	out = append(out, lvl(tInvolved("pod", "a", "x"), 2)) // differs from InvolvedFilter(Pod,a,x) in the case of the kind only
	out = append(out, lvl(tSelMatch(nil), 2))
	for _, m := range labelMapsE([]string{"1", "2"}) {
		l := 3
		switch mapStr(m) {
		case "{}", "{k1=1}", "{k1=1,k2=1}", "{k1=}", "{k2=}":
			l = 2
		}
		out = append(out, lvl(tSelMatch(m), l))
	}
	listLvl := func(ix ...int) int {
		switch fmt.Sprint(ix) {
		case "[]", "[0]", "[3]", "[0 1]", "[1 0]":
			return 2
		case "[1]", "[2]", "[0 2]", "[0 0]":
			return 3
		}
		return 4
	}
	for _, kind := range podKinds {
		ws := c17Workloads(kind)
		out = append(out, lvl(tPods(kind), 2))
		for i := range ws {
			l := listLvl(i)
			if kind == "deploy" && i == 0 {
				l = 0
			}
			out = append(out, lvl(tPods(kind, ws[i]), l))
		}
		for i := range ws {
			for j := range ws {
				out = append(out, lvl(tPods(kind, ws[i], ws[j]), listLvl(i, j)))
			}
		}
	}
	gs := c17Ingresses()
	out = append(out, lvl(tServices(), 2))
	for i := range gs {
		out = append(out, lvl(tServices(gs[i]), listLvl(i)))
	}
	for i := range gs {
		for j := range gs {
			out = append(out, lvl(tServices(gs[i], gs[j]), listLvl(i, j)))
		}
	}
	return out
}

func atomsUpTo(atoms []*Term, l int) []*Term {
	var out []*Term
	for _, a := range atoms {
		if a.Lvl <= l {
			out = append(out, a)
		}
	}
	return out
}

// checkDistinguishing verifies, on the reference semantics, that the object universe separates
// every two atoms of the same constructor whose arguments have a different denotation (and
// that equal denotations give equal reference vectors, i.e. that Key is a denotation at all).
func checkDistinguishing(atoms []*Term, objs []metav1.Object) (string, int) {
	ref := make([]BV, len(atoms))
	for i, a := range atoms {
		ref[i] = newBV(len(objs))
		for k, o := range objs {
			if a.Ref(o) {
				ref[i].set(k)
			}
		}
	}
	n := 0
	for i, a := range atoms {
		for j, b := range atoms {
			if i >= j || a.Ctor != b.Ctor {
				continue
			}
			n++
			same := ref[i].firstDiff(ref[j]) < 0
			if a.Key != b.Key && same {
				return fmt.Sprintf("object universe does not distinguish %s from %s (denotations %q vs %q)", a.Name, b.Name, a.Key, b.Key), n
			}
			if a.Key == b.Key && !same {
				return fmt.Sprintf("atoms %s and %s have the same denotation key %q but different reference vectors", a.Name, b.Name, a.Key), n
			}
		}
	}
	return "", n
}

func acceptBV(f filter.Filter, objs []metav1.Object) BV {
	b := newBV(len(objs))
	for k, o := range objs {
		if f.Accept(o) {
			b.set(k)
		}
	}
	return b
}

func capViolations(sigs map[string]*found, max int) []*found {
	var all []*found
	for _, f := range sigs {
		all = append(all, f)
	}
	sort.Slice(all, func(i, j int) bool {
		if all[i].rank != all[j].rank {
			return all[i].rank < all[j].rank
		}
		return all[i].sig < all[j].sig
	})
	if len(all) > max {
		all = all[:max]
	}
	return all
}

// found is one violation candidate; per signature the one with the smallest rank (enumeration
// index of the failing input, so: the smallest input) is kept, which makes reports deterministic.
type found struct {
	scenario, sig string
	rank          int64
	msg           func() string
}

type foundSet struct {
	mu sync.Mutex
	m  map[string]*found
}

func (s *foundSet) add(scenario, class string, rank int64, msg func() string) {
	sig := scenario + " :: " + class
	s.mu.Lock()
	defer s.mu.Unlock()
	if s.m == nil {
		s.m = map[string]*found{}
	}
	if old, ok := s.m[sig]; ok && old.rank <= rank {
		return
	}
	if len(s.m) > 4096 {
		if _, ok := s.m[sig]; !ok {
			return
		}
	}
	s.m[sig] = &found{scenario: scenario, sig: sig, rank: rank, msg: msg}
}
