// Package c09: joins select exactly the destination objects matched by the
// current source objects; readiness; event delta; closing the join result
// stops everything the join created and leaves the bases running.
// Seam: base "controllers" are real publishers over real root subscriptions
// and caches (no lister/watcher/ticker), wrapped by the real typed packages;
// the real generated join functions on top.
package c09

import (
	"context"
	"fmt"
	"sort"
	"strings"
	"time"

	logutil "github.com/boz/go-logutil"
	"github.com/boz/kcache"
	"github.com/boz/kcache/filter"
	"github.com/boz/kcache/join"
	"github.com/boz/kcache/types/daemonset"
	"github.com/boz/kcache/types/deployment"
	"github.com/boz/kcache/types/ingress"
	"github.com/boz/kcache/types/job"
	"github.com/boz/kcache/types/pod"
	"github.com/boz/kcache/types/replicaset"
	"github.com/boz/kcache/types/replicationcontroller"
	"github.com/boz/kcache/types/service"
	"github.com/boz/kcache/types/statefulset"
	appsv1 "k8s.io/api/apps/v1"
	batchv1 "k8s.io/api/batch/v1"
	corev1 "k8s.io/api/core/v1"
	netv1beta1 "k8s.io/api/networking/v1beta1"
	metav1 "k8s.io/apimachinery/pkg/apis/meta/v1"

	"verif/explore"
	"verif/harness/hx"
	"verif/runner"
	"verif/vs"
)

// handle is what the harness needs from a join result, independent of its type.
type handle struct {
	ready  func() <-chan struct{}
	done   func() <-chan struct{}
	close  func()
	list   func() ([]metav1.Object, error)
	events func() (func() (string, bool), func(), error) // subscribe: next(), close
}

func podHandle(c pod.Controller) handle {
	return handle{
		ready: c.Ready, done: c.Done, close: c.Close,
		list: func() ([]metav1.Object, error) {
			l, err := c.Cache().List()
			var out []metav1.Object
			for _, p := range l {
				out = append(out, p)
			}
			return out, err
		},
		events: func() (func() (string, bool), func(), error) {
			s, err := c.Subscribe()
			if err != nil {
				return nil, nil, err
			}
			return func() (string, bool) {
				e, ok := <-s.Events()
				if !ok {
					return "", false
				}
				return string(e.Type()) + ":" + hx.ObjString(e.Resource()), true
			}, s.Close, nil
		},
	}
}

func svcHandle(c service.Controller) handle {
	return handle{
		ready: c.Ready, done: c.Done, close: c.Close,
		list: func() ([]metav1.Object, error) {
			l, err := c.Cache().List()
			var out []metav1.Object
			for _, p := range l {
				out = append(out, p)
			}
			return out, err
		},
		events: func() (func() (string, bool), func(), error) {
			s, err := c.Subscribe()
			if err != nil {
				return nil, nil, err
			}
			return func() (string, bool) {
				e, ok := <-s.Events()
				if !ok {
					return "", false
				}
				return string(e.Type()) + ":" + hx.ObjString(e.Resource()), true
			}, s.Close, nil
		},
	}
}

// (non-zero constant generation; the objects named w1 and p1 are terminating but still exist: neither field takes
// part in any selection rule)
func meta(ns, name, rv string) metav1.ObjectMeta {
	m := metav1.ObjectMeta{Namespace: ns, Name: name, ResourceVersion: rv, Generation: 7, Annotations: map[string]string{"l": "9", "x": "9"}}
	if name == "w1" || name == "p1" {
		t := metav1.Unix(1000, 0)
		m.DeletionTimestamp = &t
	}
	if name == "w2" || name == "p3" {
		yes := true
		m.Finalizers = []string{"verif/hold"}
		m.OwnerReferences = []metav1.OwnerReference{{APIVersion: "apps/v1", Kind: "Deployment", Name: "w1", UID: "u-w1", Controller: &yes}}
	}
	return m
}

func lsel(sel string) *metav1.LabelSelector {
	return &metav1.LabelSelector{MatchLabels: hx.ParseLabels(sel)}
}

// kind describes one join: how to build a source object with a selector and how to start the join.
type kind struct {
	name   string
	mkSrc  func(ns, name, rv, sel string) metav1.Object // sel: "k=v" label selector, or a service name for ingress
	start  func(ctx context.Context, src, mid, dst kcache.Controller) (handle, error)
	selSvc bool // sources select destination objects by name (ingress -> services)
	double bool // ingress -> services -> pods
}

var kinds = []kind{
	{name: "ServicePods",
		mkSrc: func(ns, name, rv, sel string) metav1.Object {
			return &corev1.Service{ObjectMeta: meta(ns, name, rv), Spec: corev1.ServiceSpec{Selector: hx.ParseLabels(sel)}}
		},
		start: func(ctx context.Context, src, _, dst kcache.Controller) (handle, error) {
			j, err := join.ServicePods(ctx, service.VNewController(src), pod.VNewController(dst))
			if err != nil {
				return handle{}, err
			}
			return podHandle(j), nil
		}},
	{name: "RCPods",
		mkSrc: func(ns, name, rv, sel string) metav1.Object {
			return &corev1.ReplicationController{ObjectMeta: meta(ns, name, rv), Spec: corev1.ReplicationControllerSpec{Selector: hx.ParseLabels(sel)}}
		},
		start: func(ctx context.Context, src, _, dst kcache.Controller) (handle, error) {
			j, err := join.RCPods(ctx, replicationcontroller.VNewController(src), pod.VNewController(dst))
			if err != nil {
				return handle{}, err
			}
			return podHandle(j), nil
		}},
	{name: "RSPods",
		mkSrc: func(ns, name, rv, sel string) metav1.Object {
			return &appsv1.ReplicaSet{ObjectMeta: meta(ns, name, rv), Spec: appsv1.ReplicaSetSpec{Selector: lsel(sel)}}
		},
		start: func(ctx context.Context, src, _, dst kcache.Controller) (handle, error) {
			j, err := join.RSPods(ctx, replicaset.VNewController(src), pod.VNewController(dst))
			if err != nil {
				return handle{}, err
			}
			return podHandle(j), nil
		}},
	{name: "DeploymentPods",
		mkSrc: func(ns, name, rv, sel string) metav1.Object {
			return &appsv1.Deployment{ObjectMeta: meta(ns, name, rv), Spec: appsv1.DeploymentSpec{Selector: lsel(sel)}}
		},
		start: func(ctx context.Context, src, _, dst kcache.Controller) (handle, error) {
			j, err := join.DeploymentPods(ctx, deployment.VNewController(src), pod.VNewController(dst))
			if err != nil {
				return handle{}, err
			}
			return podHandle(j), nil
		}},
	{name: "DaemonSetPods",
		mkSrc: func(ns, name, rv, sel string) metav1.Object {
			return &appsv1.DaemonSet{ObjectMeta: meta(ns, name, rv), Spec: appsv1.DaemonSetSpec{Selector: lsel(sel)}}
		},
		start: func(ctx context.Context, src, _, dst kcache.Controller) (handle, error) {
			j, err := join.DaemonSetPods(ctx, daemonset.VNewController(src), pod.VNewController(dst))
			if err != nil {
				return handle{}, err
			}
			return podHandle(j), nil
		}},
	{name: "StatefulSetPods",
		mkSrc: func(ns, name, rv, sel string) metav1.Object {
			return &appsv1.StatefulSet{ObjectMeta: meta(ns, name, rv), Spec: appsv1.StatefulSetSpec{Selector: lsel(sel)}}
		},
		start: func(ctx context.Context, src, _, dst kcache.Controller) (handle, error) {
			j, err := join.StatefulSetPods(ctx, statefulset.VNewController(src), pod.VNewController(dst))
			if err != nil {
				return handle{}, err
			}
			return podHandle(j), nil
		}},
	{name: "JobPods",
		mkSrc: func(ns, name, rv, sel string) metav1.Object {
			return &batchv1.Job{ObjectMeta: meta(ns, name, rv), Spec: batchv1.JobSpec{Selector: lsel(sel)}}
		},
		start: func(ctx context.Context, src, _, dst kcache.Controller) (handle, error) {
			j, err := join.JobPods(ctx, job.VNewController(src), pod.VNewController(dst))
			if err != nil {
				return handle{}, err
			}
			return podHandle(j), nil
		}},
	{name: "IngressServices", selSvc: true,
		mkSrc: func(ns, name, rv, sel string) metav1.Object {
			return &netv1beta1.Ingress{ObjectMeta: meta(ns, name, rv), Spec: netv1beta1.IngressSpec{Backend: &netv1beta1.IngressBackend{ServiceName: sel}}}
		},
		start: func(ctx context.Context, src, _, dst kcache.Controller) (handle, error) {
			j, err := join.IngressServices(ctx, ingress.VNewController(src), service.VNewController(dst))
			if err != nil {
				return handle{}, err
			}
			return svcHandle(j), nil
		}},
	{name: "IngressPods", selSvc: true, double: true,
		mkSrc: func(ns, name, rv, sel string) metav1.Object {
			return &netv1beta1.Ingress{ObjectMeta: meta(ns, name, rv), Spec: netv1beta1.IngressSpec{Backend: &netv1beta1.IngressBackend{ServiceName: sel}}}
		},
		start: func(ctx context.Context, src, mid, dst kcache.Controller) (handle, error) {
			j, err := join.IngressPods(ctx, ingress.VNewController(src), service.VNewController(mid), pod.VNewController(dst))
			if err != nil {
				return handle{}, err
			}
			return podHandle(j), nil
		}},
}

type ev struct {
	typ           kcache.EventType
	ns, name, sel string // source: selector; destination pod: labels; destination service: ignored
}

type cfg struct {
	Kind    int
	SrcInit []ev
	SrcHist []ev
	// Sequenced: the source history runs first, one event at a time with quiescence in between (each change fully
	// processed by the join before the next), and the destination history only after it
	Sequenced bool
	// SiblingJoin: a second join over the same bases is created with the first and closed while the histories run
	SiblingJoin bool
	// CancelCallCtx: the context passed to the join constructor ends right after the constructor returned (a caller
	// that bounds the call, not the join): the join result stays open and keeps following its bases
	CancelCallCtx bool
	DstHist       []ev
	// StopSrc: after the histories the source gets one more change and shuts down at once (the change may still be
	// queued for the join when the source's cache stops): the join result belongs to the destination's tree and
	// stays open
	StopSrc bool
	// Bufsiz > 0: model value of EventBufsiz; the destination history then runs first, one event at a time, and the
	// source history after it as one burst (events of the burst are dropped on the way to the join's monitor; the
	// join must still end at the selection of the final sources)
	Bufsiz  int
	MidHist []ev // double join only: changes of the services in the middle
	Cycles  int
	Mode    string
	Bound   int
	Name    string
}

type inst struct {
	c                  cfg
	k                  kind
	rv                 int
	readyObs           []string
	joinErr            error
	census0            []string
	censusN            [][]string
	lists              []string // join cache at quiescence, per cycle
	wants              []string
	received           [][]string
	readyAt            []string // content read when Ready() was observed, per cycle
	probeOK            bool
	finished           bool
	srcFinal, dstFinal string
	doneClosed         []bool
	doneAfterSrcStop   []bool
}

func (in *inst) next() string { in.rv++; return fmt.Sprint(in.rv) }

func (in *inst) srcObj(e ev) metav1.Object { return in.k.mkSrc(e.ns, e.name, in.next(), e.sel) }

func (in *inst) dstObj(e ev) metav1.Object {
	if in.k.selSvc && !in.k.double {
		return &corev1.Service{ObjectMeta: meta(e.ns, e.name, in.next()), Spec: corev1.ServiceSpec{Selector: hx.ParseLabels(e.sel)}}
	}
	p := hx.Pod(e.ns, e.name, in.next(), e.sel)
	return p
}

// reference selection rule, written from the property text (not from the filter packages)
func selects(k kind, src metav1.Object, selector string, dst metav1.Object) bool {
	if src.GetNamespace() != dst.GetNamespace() {
		return false
	}
	if k.selSvc {
		return selector != "" && dst.GetName() == selector
	}
	want := hx.ParseLabels(selector)
	if len(want) == 0 {
		// a selector-less service selects nothing; the workload kinds fall back to (here: empty) template labels
		_, isSvc := src.(*corev1.Service)
		return !isSvc
	}
	for k, v := range want {
		if dst.GetLabels()[k] != v {
			return false
		}
	}
	return true
}

type srcState struct {
	obj metav1.Object
	sel string
}

func (in *inst) run() {
	c := in.c
	in.k = kinds[c.Kind]
	ctx := logutil.NewContext(context.Background(), hx.Log)
	src := hx.NewRoot(filter.Null())
	dst := hx.NewRoot(filter.Null())
	var mid *hx.Root
	var midPub kcache.Controller
	if in.k.double {
		mid = hx.NewRoot(filter.Null())
		midPub = mid.Pub
	}
	// an independent subscriber of the destination base (it must keep receiving after joins are closed)
	probe, _ := dst.Pub.Subscribe()
	var probeGot []string
	go func() {
		for e := range probe.Events() {
			probeGot = append(probeGot, hx.EventString(e))
		}
	}()
	srcCur := map[string]srcState{}
	dstCur := map[string]metav1.Object{}
	midCur := map[string]metav1.Object{}
	applySrc := func(e ev, publish bool) metav1.Object {
		o := in.srcObj(e)
		if e.typ == kcache.EventTypeDelete {
			delete(srcCur, e.ns+"/"+e.name)
		} else {
			srcCur[e.ns+"/"+e.name] = srcState{o, e.sel}
		}
		if publish {
			src.Publish(kcache.NewEvent(e.typ, o))
		}
		return o
	}
	var srcInit []metav1.Object
	for _, e := range c.SrcInit {
		srcInit = append(srcInit, applySrc(e, false))
	}
	if mid != nil {
		// the services the ingresses point to: svc "s1" selects l=1, "s2" selects l=2 (both namespaces exist)
		var ml []metav1.Object
		for _, s := range []struct{ ns, name, sel string }{{"ns", "s1", "l=1"}, {"ns", "s2", "l=2"}, {"other", "s1", "l=1"}} {
			o := &corev1.Service{ObjectMeta: meta(s.ns, s.name, in.next()), Spec: corev1.ServiceSpec{Selector: hx.ParseLabels(s.sel)}}
			ml = append(ml, o)
			midCur[s.ns+"/"+s.name] = o
		}
		mid.Init(ml)
	}
	vs.SleepIdle(time.Duration(1))
	in.census0 = libCensus()
	for cycle := 0; cycle < c.Cycles; cycle++ {
		// (the sibling join is created first: its subscriptions come first in the bases' publishers)
		var sibling *handle
		if c.SiblingJoin && cycle == 0 {
			if h2, err := in.k.start(ctx, src.Pub, midPub, dst.Pub); err == nil {
				sibling = &h2
			}
		}
		callCtx, endCall := context.WithCancel(ctx)
		h, err := in.k.start(callCtx, src.Pub, midPub, dst.Pub)
		if err != nil {
			endCall()
			in.joinErr = err
			return
		}
		if c.CancelCallCtx {
			endCall()
		}
		_ = endCall
		// readiness observer
		cy := cycle
		go func() {
			<-h.ready()
			l, _ := h.list()
			in.readyObs = append(in.readyObs, fmt.Sprintf("cycle%d src=%v dst=%v", cy, hx.IsClosed(src.ReadyCh), hx.IsClosed(dst.ReadyCh)))
			in.readyAt = append(in.readyAt, hx.ListString(l))
		}()
		nextEv, closeSub, err := h.events()
		var got []string
		subDone := make(chan bool, 2)
		if err == nil {
			go func() {
				for {
					s, ok := nextEv()
					if !ok {
						break
					}
					got = append(got, s)
				}
				subDone <- true
			}()
		}
		_ = closeSub
		if cycle == 0 {
			// both bases become ready and go through their histories, concurrently
			fin := make(chan bool, 2)
			srcOver := make(chan struct{})
			dstOver := make(chan struct{})
			go func() {
				src.Init(srcInit)
				if c.Bufsiz > 0 {
					<-dstOver
				}
				for _, e := range c.SrcHist {
					if c.Sequenced {
						vs.SleepIdle(time.Duration(1))
					}
					applySrc(e, true)
				}
				if c.Sequenced {
					vs.SleepIdle(time.Duration(1))
				}
				close(srcOver)
				fin <- true
			}()
			if c.SiblingJoin && sibling != nil {
				go sibling.close()
			}
			go func() {
				dst.Init(nil)
				if c.Sequenced {
					<-srcOver
				}
				for _, e := range c.DstHist {
					o := in.dstObj(e)
					if e.typ == kcache.EventTypeDelete {
						delete(dstCur, e.ns+"/"+e.name)
					} else {
						dstCur[e.ns+"/"+e.name] = o
					}
					dst.Publish(kcache.NewEvent(e.typ, o))
					if c.Bufsiz > 0 {
						vs.SleepIdle(time.Duration(1))
					}
				}
				close(dstOver)
				fin <- true
			}()
			if mid != nil && len(c.MidHist) > 0 {
				for _, e := range c.MidHist {
					o := &corev1.Service{ObjectMeta: meta(e.ns, e.name, in.next()), Spec: corev1.ServiceSpec{Selector: hx.ParseLabels(e.sel)}}
					if e.typ == kcache.EventTypeDelete {
						delete(midCur, e.ns+"/"+e.name)
					} else {
						midCur[e.ns+"/"+e.name] = o
					}
					mid.Publish(kcache.NewEvent(e.typ, o))
				}
			}
			<-fin
			<-fin
		}
		vs.SleepIdle(time.Duration(1))
		l, lerr := h.list()
		if lerr != nil {
			in.lists = append(in.lists, "error:"+lerr.Error())
		} else {
			in.lists = append(in.lists, hx.ListString(l))
		}
		// reference
		var want []metav1.Object
		for _, d := range dstCur {
			sel := false
			for _, s := range srcCur {
				if in.k.double {
					// ingress -> service (by name, same namespace) -> pod (by selector, same namespace)
					for _, m := range midCur {
						if selects(kind{selSvc: true}, s.obj, s.sel, m) && selects(kind{}, m, hx.LabelString(m.(*corev1.Service).Spec.Selector), d) {
							sel = true
						}
					}
				} else if selects(in.k, s.obj, s.sel, d) {
					sel = true
				}
			}
			if sel {
				want = append(want, d)
			}
		}
		in.wants = append(in.wants, hx.ListString(want))
		if c.StopSrc {
			for _, e := range c.SrcInit[:1] {
				e.typ = kcache.EventTypeUpdate
				applySrc(e, true)
				applySrc(e, true)
			}
			src.Stop()
			vs.SleepIdle(time.Duration(1))
			in.doneAfterSrcStop = append(in.doneAfterSrcStop, hx.IsClosed(h.done()))
		}
		// close the join result: everything it created must go away, the bases stay
		h.close()
		vs.SleepIdle(time.Duration(1))
		in.doneClosed = append(in.doneClosed, hx.IsClosed(h.done()))
		in.censusN = append(in.censusN, libCensus())
		in.received = append(in.received, append([]string{}, got...))
	}
	// the bases still work
	o := in.dstObj(ev{ns: "ns", name: "probe", sel: "l=9"})
	dst.Publish(kcache.NewEvent(kcache.EventTypeCreate, o))
	vs.SleepIdle(time.Duration(1))
	for _, g := range probeGot {
		if strings.Contains(g, "ns/probe@") {
			in.probeOK = true
		}
	}
	sl, _ := src.Cache.List()
	dl, _ := dst.Cache.List()
	in.srcFinal, in.dstFinal = hx.ListString(sl), hx.ListString(dl)
	in.finished = true
}

func libCensus() []string {
	var out []string
	if s := vs.Cur(); s != nil {
		for _, n := range s.LiveCensus() {
			if strings.Contains(n, "lib:") {
				out = append(out, n)
			}
		}
	}
	sort.Strings(out)
	return out
}

func diff(a, b []string) []string {
	m := map[string]int{}
	for _, x := range a {
		m[x]--
	}
	for _, x := range b {
		m[x]++
	}
	var out []string
	for k, v := range m {
		if v != 0 {
			out = append(out, fmt.Sprintf("%s %+d", strings.TrimPrefix(k, ":"), v))
		}
	}
	sort.Strings(out)
	return out
}

func (in *inst) check(r *vs.Result) []string {
	var msgs []string
	name := kinds[in.c.Kind].name
	desc := fmt.Sprintf("%s src-init=%v src-history=%v dst-history=%v", name, in.c.SrcInit, in.c.SrcHist, in.c.DstHist)
	if in.joinErr != nil {
		return []string{fmt.Sprintf("join failed | %s: %v", desc, in.joinErr)}
	}
	if !in.finished {
		return []string{fmt.Sprintf("hang | %s: the run did not finish (cycles done %d); blocked %d goroutines", desc, len(in.lists), len(r.Blocked))}
	}
	for i := range in.lists {
		if in.lists[i] != in.wants[i] {
			msgs = append(msgs, fmt.Sprintf("%s join cache differs from the selection | %s: cycle %d join cache %s, destination objects selected by current sources %s (sources %s, destinations %s)", name, desc, i, in.lists[i], in.wants[i], in.srcFinal, in.dstFinal))
		}
		if i < len(in.doneAfterSrcStop) && in.doneAfterSrcStop[i] {
			msgs = append(msgs, fmt.Sprintf("%s join closed by its source | %s: the source controller shut down (with a change still on its way to the join) and the join result's Done() closed: it lives in the destination's tree", name, desc))
		}
		if !in.doneClosed[i] {
			msgs = append(msgs, fmt.Sprintf("%s join result not done after Close | %s: cycle %d", name, desc, i))
		}
		d := diff(in.census0, in.censusN[i])
		if in.c.StopSrc {
			// the source itself went away in this scenario: only what is left over counts
			var left []string
			for _, x := range d {
				if !strings.Contains(x, " -") {
					left = append(left, x)
				}
			}
			d = left
		}
		if len(d) > 0 {
			msgs = append(msgs, fmt.Sprintf("%s closing the join result leaves goroutines behind | %s: cycle %d, goroutines alive compared with before the join was created: %v", name, desc, i, d))
		}
	}
	for _, o := range in.readyObs {
		if !strings.Contains(o, "src=true dst=true") {
			msgs = append(msgs, fmt.Sprintf("%s join ready before its bases | %s: %s", name, desc, o))
		}
	}
	if len(in.readyAt) > 0 && len(in.received) > 0 && in.c.Bufsiz == 0 {
		if got := hx.MirrorTolerant(in.readyAt[0], in.received[0]); got != in.lists[0] {
			msgs = append(msgs, fmt.Sprintf("%s join events do not account for its cache | %s: content at readiness %s + events %v = %s, cache %s", name, desc, in.readyAt[0], in.received[0], got, in.lists[0]))
		}
	}
	if !in.probeOK {
		msgs = append(msgs, fmt.Sprintf("%s base controller stopped delivering after the join was closed | %s", name, desc))
	}
	return msgs
}

func (in *inst) outcome() string {
	return fmt.Sprintf("lists=%v recv=%v ready=%v", in.lists, in.received, in.readyObs)
}

// moves: destination objects that enter, leave and re-enter the selection (labels for pods; for the
// ingress->services join, where selection is by name, services that appear and disappear)
func moves(k kind, C, U, D kcache.EventType) []ev {
	if k.selSvc && !k.double {
		return []ev{{C, "ns", "s1", "x=1"}, {D, "ns", "s1", "x=1"}, {C, "ns", "s2", "x=1"}, {C, "ns", "s1", "x=2"}}
	}
	return []ev{{C, "ns", "p1", "l=1"}, {U, "ns", "p1", "l=2"}, {C, "ns", "p2", "l=2"}, {U, "ns", "p2", "l=1"}, {D, "ns", "p1", "l=2"}}
}

func scenario(c cfg) runner.Sc {
	return runner.Sc{
		Scenario: explore.Scenario{
			Name: fmt.Sprintf("c09/%s/%s/%s%d", kinds[c.Kind].name, c.Name, c.Mode, c.Bound), Mode: c.Mode, Bound: c.Bound,
			Cfg: vs.Config{Timers: vs.TimersIdle, MaxSteps: 400000, Bufsiz: c.Bufsiz},
			New: func() explore.Instance {
				in := &inst{c: c}
				return explore.Instance{Run: in.run, Check: in.check, Outcome: in.outcome}
			},
		},
		Split: true,
	}
}

// ReadinessScenarios: the readiness clause of C08 for joins ("a join becomes ready only after its source and its
// destination are ready") on two scenarios per join kind; only that clause is judged here.
func ReadinessScenarios(prop string, tier string) []runner.Sc {
	d := 1
	if tier == "thorough" {
		d = 2
	}
	C := kcache.EventTypeCreate
	var out []runner.Sc
	for ki, k := range kinds {
		sel1 := "l=1"
		dst := []ev{{C, "ns", "p1", "l=1"}}
		if k.selSvc {
			sel1 = "s1"
			if !k.double {
				dst = []ev{{C, "ns", "s1", "x=1"}}
			}
		}
		for _, c := range []cfg{
			{Kind: ki, Name: "readiness/source-present", SrcInit: []ev{{C, "ns", "w1", sel1}}, DstHist: dst, Cycles: 1, Mode: "S2", Bound: d},
			{Kind: ki, Name: "readiness/source-empty", DstHist: dst, Cycles: 1, Mode: "S2", Bound: d},
		} {
			c := c
			sc := scenario(c)
			sc.Scenario.Name = strings.Replace(sc.Scenario.Name, "c09/", strings.ToLower(prop)+"/join/", 1)
			sc.Scenario.New = func() explore.Instance {
				in := &inst{c: c}
				return explore.Instance{Run: in.run, Outcome: in.outcome, Check: func(r *vs.Result) []string {
					var keep []string
					for _, m := range in.check(r) {
						if strings.Contains(m, " join ready before its bases") {
							keep = append(keep, m)
						}
					}
					return keep
				}}
			}
			out = append(out, sc)
		}
	}
	return out
}

func Property() runner.Property {
	return runner.Property{
		ID:           "C09",
		Level:        "model_checking",
		QuickBudgetS: 600, ThoroughBudgetS: 3000,
		Rule: "all eight generated joins and IngressPods over publisher-level base controllers wrapped by the real typed packages; sources that appear, change selector and disappear, destinations in two namespaces with overlapping labels, both bases becoming ready and running their histories concurrently with the join's construction; schedules within d deviations of the default (d=2 quick, 3 thorough); oracle at quiescence: join cache = destination objects selected by at least one current source (reference rule written from the property), join Ready() only observed with both bases ready, join events account for its cache, after Close() the join is done and the census of live library goroutines equals the census before the join was created (repeated create/close cycle), the destination base still delivers to an independent subscriber",
		Assumptions: []string{
			"bases are publisher-level (no lister/watcher): the whole-controller behaviour underneath is C03's subject",
			"deviation-bounded (about 40 goroutines per scenario)",
		},
		Scenarios: func(tier string) []runner.Sc {
			d := 2
			if tier == "thorough" {
				d = 3
			}
			var out []runner.Sc
			C, U, D := kcache.EventTypeCreate, kcache.EventTypeUpdate, kcache.EventTypeDelete
			for ki, k := range kinds {
				sel1, sel2 := "l=1", "l=2"
				if k.selSvc {
					sel1, sel2 = "s1", "s2"
				}
				dst := []ev{{C, "ns", "p1", "l=1"}, {C, "other", "p2", "l=2"}, {C, "ns", "p3", "l=2"}}
				if k.selSvc && !k.double {
					dst = []ev{{C, "ns", "s1", "x=1"}, {C, "other", "s2", "x=1"}, {C, "ns", "s2", "x=1"}}
				}
				// the same selection rule in two namespaces, a matching destination object in each
				dst2 := []ev{{C, "ns", "p1", "l=1"}, {C, "other", "p4", "l=1"}}
				if k.selSvc && !k.double {
					dst2 = []ev{{C, "ns", "s1", "x=1"}, {C, "other", "s1", "x=1"}}
				}
				sel3 := "l=3"
				dst3 := []ev{{C, "ns", "p1", "l=1"}, {C, "ns", "p5", "l=3"}}
				if k.selSvc {
					sel3 = "s3"
					if !k.double {
						dst3 = []ev{{C, "ns", "s1", "x=1"}, {C, "ns", "s3", "x=1"}}
					}
				}
				out = append(out,
					scenario(cfg{Kind: ki, Name: "appear+change-selector", SrcInit: []ev{{C, "ns", "w1", sel1}}, SrcHist: []ev{{U, "ns", "w1", sel2}}, DstHist: dst, Cycles: 2, Mode: "S2", Bound: d}),
					scenario(cfg{Kind: ki, Name: "two-identical-sources,one-changes", SrcInit: []ev{{C, "ns", "w1", sel1}, {C, "ns", "w2", sel1}}, SrcHist: []ev{{U, "ns", "w2", sel2}}, DstHist: dst, Cycles: 1, Mode: "S2", Bound: d}),
					scenario(cfg{Kind: ki, Name: "destinations-move-in-and-out", SrcInit: []ev{{C, "ns", "w1", sel1}}, DstHist: moves(k, C, U, D), Cycles: 1, Mode: "S2", Bound: d}),
					scenario(cfg{Kind: ki, Name: "sole-source-loses-its-selector", SrcInit: []ev{{C, "ns", "w1", sel1}}, SrcHist: []ev{{U, "ns", "w1", ""}}, DstHist: dst, Cycles: 1, Mode: "S2", Bound: d}),
					scenario(cfg{Kind: ki, Name: "same-rule-in-two-namespaces", SrcInit: []ev{{C, "ns", "w1", sel1}}, SrcHist: []ev{{C, "other", "w2", sel1}}, DstHist: dst2, Cycles: 1, Mode: "S2", Bound: d}),
					scenario(cfg{Kind: ki, Name: "call-context-ends-after-construction", SrcInit: []ev{{C, "ns", "w1", sel1}}, SrcHist: []ev{{U, "ns", "w1", sel2}}, DstHist: dst, CancelCallCtx: true, Cycles: 1, Mode: "S2", Bound: d - 1}),
					// a source appears that selects nothing yet and disappears again; then a destination object appears that it
					// would have selected (the join's filter must be back to the first one)
					scenario(cfg{Kind: ki, Name: "source-appears-and-disappears,then-its-target-appears", SrcInit: []ev{{C, "ns", "w1", sel1}}, SrcHist: []ev{{C, "ns", "w2", sel3}, {D, "ns", "w2", sel3}}, DstHist: dst3, Sequenced: true, Cycles: 1, Mode: "S2", Bound: d - 1}),
					// many sources, each selecting one destination object of its own (default schedule): nothing depends on how
					// many rules a join's filter is built from
					func() runner.Sc {
						if k.double {
							return scenario(cfg{Kind: ki, Name: "appear+change-selector", SrcInit: []ev{{C, "ns", "w1", sel1}}, SrcHist: []ev{{U, "ns", "w1", sel2}}, DstHist: dst, Cycles: 1, Mode: "D0"})
						}
						var srcs, dsts []ev
						for i := 0; i < 70; i++ {
							if k.selSvc {
								srcs = append(srcs, ev{C, "ns", fmt.Sprintf("w%03d", i), fmt.Sprintf("s%03d", i)})
								dsts = append(dsts, ev{C, "ns", fmt.Sprintf("s%03d", i), "x=1"})
							} else {
								srcs = append(srcs, ev{C, "ns", fmt.Sprintf("w%03d", i), fmt.Sprintf("l=%d", i)})
								dsts = append(dsts, ev{C, "ns", fmt.Sprintf("p%03d", i), fmt.Sprintf("l=%d", i)})
							}
						}
						// ... and some that nothing selects
						dsts = append(dsts, ev{C, "ns", "zz1", "l=none"}, ev{C, "other", "zz2", "l=1"})
						return scenario(cfg{Kind: ki, Name: "seventy-sources", SrcInit: srcs[:60], SrcHist: srcs[60:], DstHist: dsts, Sequenced: true, Cycles: 1, Mode: "D0"})
					}(),
					// the source shuts down with a change still on its way to the join
					scenario(cfg{Kind: ki, Name: "source-shuts-down-with-a-change-in-flight", SrcInit: []ev{{C, "ns", "w1", sel1}}, DstHist: dst, StopSrc: true, Cycles: 1, Mode: "S2", Bound: d}),
					// a burst of source changes larger than the (model) event buffers: whatever is dropped on the way to the
					// join, it ends at the selection of the final sources
					scenario(cfg{Kind: ki, Name: "source-burst-overflows-the-buffers", Bufsiz: 2, SrcInit: []ev{{C, "ns", "w1", sel1}}, SrcHist: []ev{{U, "ns", "w1", sel2}, {C, "ns", "w2", sel1}, {U, "ns", "w1", sel1}, {D, "ns", "w2", sel1}, {U, "ns", "w1", sel2}}, DstHist: dst, Cycles: 1, Mode: "S2", Bound: d}),
					// a sibling join over the same bases is closed while events flow
					scenario(cfg{Kind: ki, Name: "second-source+disappear", SrcInit: []ev{{C, "ns", "w1", sel1}}, SrcHist: []ev{{C, "ns", "w2", sel2}, {D, "ns", "w1", sel1}}, DstHist: dst, Cycles: 1, Mode: "S2", Bound: d}),
				)
			}
			// a sibling join over the same bases is closed while events flow: the window (an event distributed between the
			// sibling's subscription shutting down and its unsubscribe) needs 3 deviations here and 4M states, so this
			// runs in the thorough tier only; the quick tiers of C05, C11, C02, C06 and C10 see the same window at the
			// publisher level
			if tier == "thorough" {
				out = append(out, scenario(cfg{Kind: 0, Name: "sibling-join-closed-while-events-flow", SrcInit: []ev{{C, "ns", "w1", "l=1"}}, DstHist: []ev{{C, "ns", "p1", "l=1"}, {C, "ns", "p3", "l=1"}}, SiblingJoin: true, Cycles: 1, Mode: "S2", Bound: 3}))
			}
			// double join: the service in the middle changes its selector / disappears
			ip := len(kinds) - 1
			out = append(out,
				scenario(cfg{Kind: ip, Name: "middle-service-changes-selector", SrcInit: []ev{{C, "ns", "w1", "s1"}}, MidHist: []ev{{U, "ns", "s1", "l=2"}}, DstHist: []ev{{C, "ns", "p1", "l=1"}, {C, "ns", "p3", "l=2"}}, Cycles: 1, Mode: "S2", Bound: d}),
				scenario(cfg{Kind: ip, Name: "middle-service-disappears", SrcInit: []ev{{C, "ns", "w1", "s1"}}, MidHist: []ev{{D, "ns", "s1", "l=1"}}, DstHist: []ev{{C, "ns", "p1", "l=1"}}, Cycles: 1, Mode: "S2", Bound: d}),
			)
			return out
		},
	}
}
