package main

import (
	"verif/harness/c14"
	"verif/runner"
)

func main() { runner.Main(c14.Property()) }
