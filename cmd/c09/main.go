package main

import (
	"verif/harness/c09"
	"verif/runner"
)

func main() { runner.Main(c09.Property()) }
