// Package c20static holds the two static (non-scheduler) sub-checks of property
// C20: "generated typed and join sources equal their templates instantiated
// for the type" (Templates) and "each typed client lists and watches the API
// resource of its own type in the requested namespace" (Clients).
//
// Both are deterministic decisions over a finite, completely enumerated space
// (20 generator instances, 48 requests); nothing here uses the controlled
// scheduler.
package c20static

import (
	"bufio"
	"fmt"
	"os"
	"path/filepath"
	"strings"
)

// RepoDir is the checkout of boz/kcache whose sources are read at run time.
var RepoDir = repoDir()

// repoDir: /repo, unless the testing aid VERIF_MUT_DIR (a full copy of /repo with a candidate change, see vbuild.sh)
// is set; registered commands never set it.
func repoDir() string {
	if d := os.Getenv("VERIF_MUT_DIR"); d != "" {
		return d
	}
	return "/repo"
}

// typeTuple is one genny invocation of the Makefile target generate-types.
type typeTuple struct {
	In       string // template, relative to RepoDir
	Out      string // generated file, relative to RepoDir
	Pkg      string
	Generic  string // "ObjectType"
	Specific string // "*corev1.Pod"
	Line     int
}

// joinTuple is one ./join/gen/gen invocation of the Makefile target generate-joins.
type joinTuple struct {
	Args []string // os.Args[1:] of the generator
	Out  string   // generated file, relative to RepoDir
	Line int
}

// shellWords splits a recipe line the way /bin/sh would for the simple lines of
// this Makefile: blanks separate words, '...' and "..." quote, \ escapes, a
// bare > is its own word.
func shellWords(s string) ([]string, error) {
	var out []string
	var cur strings.Builder
	have := false
	flush := func() {
		if have {
			out = append(out, cur.String())
			cur.Reset()
			have = false
		}
	}
	for i := 0; i < len(s); i++ {
		c := s[i]
		switch {
		case c == ' ' || c == '\t':
			flush()
		case c == '\'':
			j := strings.IndexByte(s[i+1:], '\'')
			if j < 0 {
				return nil, fmt.Errorf("unterminated ' in %q", s)
			}
			cur.WriteString(s[i+1 : i+1+j])
			have = true
			i += j + 1
		case c == '"':
			j := strings.IndexByte(s[i+1:], '"')
			if j < 0 {
				return nil, fmt.Errorf("unterminated \" in %q", s)
			}
			cur.WriteString(s[i+1 : i+1+j])
			have = true
			i += j + 1
		case c == '\\' && i+1 < len(s):
			cur.WriteByte(s[i+1])
			have = true
			i++
		case c == '>':
			flush()
			out = append(out, ">")
		case c == '#' && !have:
			flush()
			return out, nil
		default:
			cur.WriteByte(c)
			have = true
		}
	}
	flush()
	return out, nil
}

// parseMakefile extracts the generator parameter tuples. problems lists every
// recipe line of the two targets that looks like a generator call but could
// not be understood (such a line makes the enumeration incomplete).
func parseMakefile(path string) (types []typeTuple, joins []joinTuple, problems []string, err error) {
	f, err := os.Open(path)
	if err != nil {
		return nil, nil, nil, err
	}
	defer f.Close()
	sc := bufio.NewScanner(f)
	target := ""
	ln := 0
	for sc.Scan() {
		ln++
		line := sc.Text()
		if line == "" {
			continue
		}
		if line[0] != '\t' {
			target = ""
			if i := strings.IndexByte(line, ':'); i > 0 && !strings.ContainsAny(line[:i], " \t=") {
				target = line[:i]
			}
			continue
		}
		if target != "generate-types" && target != "generate-joins" {
			continue
		}
		words, werr := shellWords(strings.TrimSpace(line))
		if werr != nil {
			problems = append(problems, fmt.Sprintf("Makefile:%d: %v", ln, werr))
			continue
		}
		if len(words) == 0 {
			continue
		}
		switch {
		case target == "generate-types" && filepath.Base(words[0]) == "genny":
			t := typeTuple{Line: ln}
			i := 1
			for ; i < len(words) && words[i] != "gen" && words[i] != "get"; i++ {
				w := words[i]
				switch {
				case strings.HasPrefix(w, "-in="):
					t.In = filepath.Clean(w[4:])
				case strings.HasPrefix(w, "-out="):
					t.Out = filepath.Clean(w[5:])
				case strings.HasPrefix(w, "-pkg="):
					t.Pkg = w[5:]
				default:
					problems = append(problems, fmt.Sprintf("Makefile:%d: unknown genny flag %q", ln, w))
				}
			}
			if i >= len(words) || words[i] != "gen" || len(words) != i+2 {
				problems = append(problems, fmt.Sprintf("Makefile:%d: genny line is not `genny ... gen '<Generic>=<type>'`", ln))
				continue
			}
			ts := words[i+1]
			eq := strings.IndexByte(ts, '=')
			if eq <= 0 || strings.ContainsAny(ts, ", ") {
				problems = append(problems, fmt.Sprintf("Makefile:%d: typeset %q is not a single <Generic>=<type>", ln, ts))
				continue
			}
			t.Generic, t.Specific = ts[:eq], ts[eq+1:]
			if t.In == "" || t.Out == "" || t.Pkg == "" {
				problems = append(problems, fmt.Sprintf("Makefile:%d: genny line lacks -in/-out/-pkg", ln))
				continue
			}
			types = append(types, t)
		case target == "generate-joins" && filepath.Clean(words[0]) == "join/gen/gen":
			j := joinTuple{Line: ln}
			gt := -1
			for i, w := range words {
				if w == ">" {
					gt = i
					break
				}
			}
			if gt < 0 || gt != len(words)-2 {
				problems = append(problems, fmt.Sprintf("Makefile:%d: join generator line has no `> file` redirection", ln))
				continue
			}
			j.Args = append([]string(nil), words[1:gt]...)
			j.Out = filepath.Clean(words[gt+1])
			joins = append(joins, j)
		}
	}
	if err := sc.Err(); err != nil {
		return nil, nil, nil, err
	}
	return types, joins, problems, nil
}
