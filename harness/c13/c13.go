// Package c13: periodic relisting never stops while the controller runs.
// Seam: the real _lister with its real _ticker, a list client whose latency is
// a virtual timer, and a consumer that plays controller.run taking each result
// after a consumption delay.  Timers fire "anytime" (between any two steps, in
// deadline order), so every race between time and computation is explored.
package c13

import (
	"context"
	"fmt"
	"sort"
	"time"

	"github.com/boz/kcache"
	corev1 "k8s.io/api/core/v1"
	metav1 "k8s.io/apimachinery/pkg/apis/meta/v1"
	"k8s.io/apimachinery/pkg/runtime"

	"verif/explore"
	"verif/harness/ctl"
	"verif/harness/fakeapi"
	"verif/harness/hx"
	"verif/runner"
	"verif/vs"
	"verif/vs/vrand"
)

type cfg struct {
	P, L, D     int64 // period, list latency, consumption delay (virtual ns)
	N           int   // results to consume before a regular shutdown
	CancelErrAt int   // >0: the k-th List returns an error wrapping context.Canceled although nothing is shutting down
	CloseAt     int64 // >0: an independent closer shuts the lister down at this virtual time
	Fuzz        int   // number of fuzz draws explored per nextPeriod call (1 or 3)
	Timer123    bool
	Mode        string
	Bound       int
}

func (c cfg) name() string {
	t := "legacy"
	if c.Timer123 {
		t = "go123"
	}
	if c.CancelErrAt > 0 {
		t += fmt.Sprintf("/list#%d-fails-with-context.Canceled", c.CancelErrAt)
	}
	return fmt.Sprintf("c13/P%d/L%d/D%d/N%d/close%d/fuzz%d/%s/%s%d", c.P, c.L, c.D, c.N, c.CloseAt, c.Fuzz, t, c.Mode, c.Bound)
}

type inst struct {
	c                       cfg
	inflight                int
	maxFlight               int
	starts                  []int64 // virtual start time of every List call
	consumed                []int64 // virtual time each result was taken
	finished                bool
	closedDone              bool
	idleChecked, doneAtIdle bool
	takeFailed              bool
	errs                    []string
}

type client struct{ in *inst }

func (c *client) List(ctx context.Context, _ metav1.ListOptions) (runtime.Object, error) {
	in := c.in
	// bookkeeping without scheduling points: what is read from shared harness state is folded into the history
	now := vs.ClockHere()
	in.inflight++
	if in.inflight > in.maxFlight {
		in.maxFlight = in.inflight
	}
	in.starts = append(in.starts, now)
	vs.Note(uint64(in.inflight), uint64(len(in.starts)))
	defer func() { in.inflight--; vs.Note(uint64(in.inflight)) }()
	if in.c.CancelErrAt > 0 && len(in.starts) == in.c.CancelErrAt {
		// a transport / proxy timeout surfacing as context.Canceled while the caller's context is alive
		return nil, fmt.Errorf("list interrupted: %w", context.Canceled)
	}
	if in.c.L > 0 {
		t := time.NewTimer(time.Duration(in.c.L))
		select {
		case <-t.C:
		case <-ctx.Done():
			t.Stop()
			return nil, ctx.Err()
		}
	} else {
		select {
		case <-ctx.Done():
			return nil, ctx.Err()
		default:
		}
	}
	return &corev1.PodList{ListMeta: metav1.ListMeta{ResourceVersion: "1"}}, nil
}

// afterStop: "shuts down promptly" - the list client honours its context, so once stop is signalled the lister must
// finish without waiting for anything that takes time: at the next quiescent instant (1 ns later on the virtual
// clock, before any list latency or refresh timer can fire) Done() is closed.
func (in *inst) afterStop(done <-chan struct{}) {
	vs.SleepIdle(1)
	in.idleChecked = true
	in.doneAtIdle = hx.IsClosed(done)
}

func (in *inst) run() {
	if in.c.Fuzz >= 3 {
		vrand.Floats = []float64{0.5, 0, 0.999999}
	} else {
		vrand.Floats = []float64{0.5}
	}
	stop := make(chan struct{})
	l := kcache.VNewLister(context.Background(), hx.Log, stop, time.Duration(in.c.P), &client{in})
	if in.c.CloseAt > 0 {
		go func() {
			time.Sleep(time.Duration(in.c.CloseAt))
			close(stop)
			in.afterStop(l.Done())
		}()
	}
	for i := 0; i < in.c.N; i++ {
		if in.c.D > 0 && i > 0 {
			time.Sleep(time.Duration(in.c.D))
		}
		r, ok := l.Take(stop)
		if !ok {
			in.takeFailed = true
			break
		}
		if r.Err != nil {
			in.errs = append(in.errs, r.Err.Error())
		}
		in.consumed = append(in.consumed, vs.ClockHere())
	}
	if in.c.CloseAt == 0 {
		close(stop)
	}
	<-l.Done()
	in.closedDone = true
	in.finished = true
}

func (in *inst) check(r *vs.Result) []string {
	var msgs []string
	c := in.c
	if !in.finished {
		if len(in.consumed) < c.N && !in.takeFailed {
			msgs = append(msgs, fmt.Sprintf("relisting stopped | lister alive, %d of %d list results delivered, no list in flight (inflight=%d), no timer pending (%d): nothing will ever list again (P=%d L=%d D=%d; list starts %v, consumed at %v); blocked: %v",
				len(in.consumed), c.N, in.inflight, pendingTimers(), c.P, c.L, c.D, in.starts, in.consumed, blockedSites(r)))
		} else {
			msgs = append(msgs, fmt.Sprintf("shutdown hangs | stop was signalled but Done() never closed (P=%d L=%d D=%d close=%d); blocked: %v", c.P, c.L, c.D, c.CloseAt, blockedSites(r)))
		}
		return msgs
	}
	if len(r.Blocked) > 0 {
		msgs = append(msgs, fmt.Sprintf("goroutine leak | after Done(): %v", blockedSites(r)))
	}
	if in.maxFlight > 1 {
		msgs = append(msgs, fmt.Sprintf("concurrent lists | %d List calls in flight at once (P=%d L=%d D=%d)", in.maxFlight, c.P, c.L, c.D))
	}
	// each List starts no earlier than 0.9 P after the previous result was consumed
	for i := 1; i < len(in.starts); i++ {
		if i-1 < len(in.consumed) {
			if gap := in.starts[i] - in.consumed[i-1]; gap < c.P*9/10 {
				msgs = append(msgs, fmt.Sprintf("list too early | List #%d started %d after result #%d was consumed, less than 0.9*P (P=%d L=%d D=%d; starts %v consumed %v)", i, gap, i-1, c.P, c.L, c.D, in.starts, in.consumed))
				break
			}
		}
	}
	if in.idleChecked && !in.doneAtIdle {
		msgs = append(msgs, fmt.Sprintf("shutdown waits for time to pass | stop was signalled but at the next quiescent instant Done() was still open: the lister waits for a list in flight or a timer although the client honours its context (P=%d L=%d D=%d close=%d; list starts %v); blocked: %v", c.P, c.L, c.D, c.CloseAt, in.starts, blockedSites(r)))
	}
	if c.CancelErrAt > 0 {
		if len(in.errs) != 1 {
			msgs = append(msgs, fmt.Sprintf("injected list error not delivered | list #%d failed with an error wrapping context.Canceled; results with an error: %v", c.CancelErrAt, in.errs))
		}
	} else if len(in.errs) > 0 && c.CloseAt == 0 {
		msgs = append(msgs, fmt.Sprintf("unexpected list error | %v", in.errs))
	}
	return msgs
}

func pendingTimers() int {
	if s := vs.Cur(); s != nil {
		return s.PendingTimers()
	}
	return -1
}

func blockedSites(r *vs.Result) []string {
	var out []string
	for _, b := range r.Blocked {
		out = append(out, b.Name)
	}
	return out
}

func (in *inst) outcome() string {
	return fmt.Sprintf("starts=%v consumed=%v fin=%v maxflight=%d", in.starts, in.consumed, in.finished, in.maxFlight)
}

func scenario(c cfg) runner.Sc {
	return runner.Sc{
		Scenario: explore.Scenario{
			Name: c.name(), Mode: c.Mode, Bound: c.Bound,
			Cfg: vs.Config{Timers: vs.TimersLazy, Timer123: c.Timer123, MaxSteps: 20000},
			New: func() explore.Instance {
				in := &inst{c: c}
				return explore.Instance{Run: in.run, Check: in.check, Outcome: in.outcome}
			},
		},
		Split: true,
	}
}

// controllerScenarios: the same property through the whole controller (period 3s): relisting goes on whatever the
// list latency, lists never overlap, consecutive lists start at least 0.9 periods apart, Close returns.
func controllerScenarios(tier string) []runner.Sc {
	d := 2
	if tier == "thorough" {
		d = 3
	}
	const P = 3 * time.Second
	orc := func(in *ctl.Inst, r *vs.Result) []string {
		o := in.O
		desc := in.Desc()
		if o.CreateErr != nil || !o.ObserverRan {
			return []string{"harness | controller scenario did not run: " + desc}
		}
		var msgs []string
		if !o.DoneAtRead && o.PendingTimersAtRead == 0 {
			msgs = append(msgs, fmt.Sprintf("relisting stopped | %s: controller running but at the quiescent instant of the observation no timer was armed at all (no refresh tick, no list latency pending) (lists so far at %v)", desc, o.ListTimes))
		}
		if o.MaxFlight > 1 {
			msgs = append(msgs, fmt.Sprintf("concurrent lists | %s: %d List calls in flight at once", desc, o.MaxFlight))
		}
		for i := 1; i < len(o.ListTimes); i++ {
			if gap := o.ListTimes[i] - o.ListTimes[i-1]; gap < int64(P)*9/10 {
				msgs = append(msgs, fmt.Sprintf("list too early | %s: List #%d started %dms after List #%d, less than 0.9 periods (starts %v)", desc, i+1, gap/1e6, i, o.ListTimes))
				break
			}
		}
		if !o.Finished {
			msgs = append(msgs, fmt.Sprintf("shutdown hangs | %s: Close() did not return; blocked %v", desc, ctl.BlockedNames(r)))
		} else if lb := ctl.LibBlocked(r); len(lb) > 0 {
			msgs = append(msgs, fmt.Sprintf("goroutine leak | %s: %v", desc, lb))
		}
		return msgs
	}
	mk := func(name string, c ctl.Cfg) runner.Sc {
		c.Name, c.Period, c.Mode, c.Bound = "controller/"+name, P, "S2", d
		c.Pre = []ctl.Mut{{Op: "set", Name: "a", Labels: "l=1"}}
		return ctl.Scenario("C13", c, orc)
	}
	// sustained event load: the controller needs 600 ms per event (slow filter) and one arrives every 300 ms for 9 s,
	// so from the first event on there is always one waiting. Relisting must go on meanwhile; which of "event" and
	// "list result" the controller takes when both are waiting is the scheduler's choice, so the universal form
	// would need a fairness assumption - the obligation is the existential one: some schedule within the bound
	// has made at least 4 List calls by t=17 s (a controller that drains the event queue before looking at anything
	// else has made 2 on every schedule).
	var load []ctl.Mut
	for i := 0; i < 30; i++ {
		load = append(load, ctl.Mut{Op: "set", Name: "a", Labels: fmt.Sprintf("l=%d", i%2), Delay: 300 * time.Millisecond})
	}
	const relists = "at least 4 List calls by t=17s while events keep arriving faster than they are applied"
	loadOrc := func(in *ctl.Inst, r *vs.Result) []string {
		if len(in.O.ListTimes) >= 4 {
			in.Reach(relists)
		}
		return orc(in, r)
	}
	underLoad := ctl.Scenario("C13", ctl.Cfg{Name: "controller/relisting-under-sustained-event-load", Period: P, Mode: "S2", Bound: 1,
		Pre: []ctl.Mut{{Op: "set", Name: "a", Labels: "l=1"}}, Hist: load, SlowOn: "a", SlowFor: 600 * time.Millisecond, ReadAt: 17 * time.Second}, loadOrc)
	underLoad.Exists = []string{relists}
	lat := func(d time.Duration) map[int]fakeapi.ListFault {
		return map[int]fakeapi.ListFault{2: {Latency: d}, 3: {Latency: d}}
	}
	return []runner.Sc{
		underLoad,
		mk("fast-lists", ctl.Cfg{ReadAt: 8 * time.Second}),
		mk("list-latency-half-period", ctl.Cfg{ListFaults: lat(1500 * time.Millisecond), ReadAt: 12 * time.Second}),
		mk("list-latency-1.3-periods", ctl.Cfg{ListFaults: lat(4 * time.Second), ReadAt: 18 * time.Second}),
		mk("list-latency-2-periods+close-mid-list", ctl.Cfg{ListFaults: lat(6 * time.Second), ReadAt: 12 * time.Second, Close: ctl.CloseSpec{Kind: "close", AfterMut: -1, At: 5 * time.Second}}),
	}
}

func Property() runner.Property {
	return runner.Property{
		ID:           "C13",
		Level:        "model_checking",
		QuickBudgetS: 900, ThoroughBudgetS: 1800,
		Rule: "configuration grid (period P=10, list latency L, result-consumption delay D, fuzz draws, timer semantics legacy/go1.23, independent shutdown time) x all interleavings of the real _lister + _ticker with a latency-modelling list client and a consumer, timers firing between any two steps in deadline order; oracle: N results are delivered (relisting never stops), at most one List in flight, each List starts >= 0.9 P after the previous result was consumed (virtual clock), shutdown completes with no goroutine left; whole-controller scenarios (period 3 s) incl. sustained event load, judged by a reachability obligation (some schedule within the bound makes 4 List calls while events arrive faster than they are applied)",
		Assumptions: []string{
			"virtual time: computation takes no time, timers fire in deadline order but arbitrarily late relative to computation",
			"list client returns as soon as its context is cancelled (premise of C12/C13)",
		},
		Scenarios: func(tier string) []runner.Sc {
			var out []runner.Sc
			// a list error that wraps context.Canceled while nothing is shutting down is a result like any other:
			// it is delivered and relisting goes on
			for _, k := range []int{1, 2} {
				out = append(out, scenario(cfg{P: 10, L: 5, D: 0, N: 3, CancelErrAt: k, Fuzz: 1, Mode: "S2", Bound: 2}))
			}

			// long runs on the default schedule: nothing depends on how many cycles have passed
			for _, ld := range [][2]int64{{0, 0}, {5, 5}, {11, 0}, {20, 15}} {
				out = append(out, scenario(cfg{P: 10, L: ld[0], D: ld[1], N: 40, Fuzz: 1, Mode: "D0"}))
			}
			Ls, Ds := []int64{0, 5, 11, 20}, []int64{0, 5, 15}
			if tier == "thorough" {
				Ls = []int64{0, 5, 9, 11, 20, 50}
			}
			for _, L := range Ls {
				for _, D := range Ds {
					// one full cycle (list, deliver, reset, tick, second list starts) + shutdown: all interleavings
					out = append(out, scenario(cfg{P: 10, L: L, D: D, N: 1, Fuzz: 1, Mode: "S1"}))
					// several cycles: deviation bounded
					out = append(out, scenario(cfg{P: 10, L: L, D: D, N: 3, Fuzz: 1, Mode: "S2", Bound: 2}))
				}
			}
			for _, cl := range []int64{3, 12, 26} {
				out = append(out, scenario(cfg{P: 10, L: 5, D: 0, N: 3, CloseAt: cl, Fuzz: 1, Mode: "S2", Bound: 2}))
				out = append(out, scenario(cfg{P: 10, L: 20, D: 5, N: 3, CloseAt: cl, Fuzz: 1, Mode: "S2", Bound: 2}))
			}
			out = append(out, scenario(cfg{P: 10, L: 5, D: 5, N: 3, Fuzz: 3, Mode: "S2", Bound: 2}))
			out = append(out, scenario(cfg{P: 10, L: 11, D: 0, N: 1, Fuzz: 1, Timer123: true, Mode: "S1"}))
			out = append(out, scenario(cfg{P: 10, L: 5, D: 15, N: 3, Fuzz: 1, Timer123: true, Mode: "S2", Bound: 2}))
			if tier == "thorough" {
				for _, t123 := range []bool{false, true} {
					for _, L := range Ls {
						for _, D := range Ds {
							out = append(out, scenario(cfg{P: 10, L: L, D: D, N: 4, Fuzz: 3, Timer123: t123, Mode: "S2", Bound: 3}))
							if t123 {
								out = append(out, scenario(cfg{P: 10, L: L, D: D, N: 1, Fuzz: 3, Timer123: t123, Mode: "S1"}))
							}
							for _, cl := range []int64{1, 12, 33} {
								out = append(out, scenario(cfg{P: 10, L: L, D: D, N: 4, CloseAt: cl, Fuzz: 1, Timer123: t123, Mode: "S2", Bound: 3}))
							}
						}
					}
				}
				out = append(out, scenario(cfg{P: 10, L: 5, D: 5, N: 1, Fuzz: 3, Mode: "S1"}))
				s := scenario(cfg{P: 10, L: 5, D: 5, N: 2, Fuzz: 1, Mode: "S1"})
				s.TableBits = 28
				s.BudgetS = 900
				out = append(out, s)
			}
			out = append(out, controllerScenarios(tier)...)
			// cheap (bounded) scenarios first, so that the unbounded ones share what is left of the tier budget
			sort.SliceStable(out, func(i, j int) bool { return out[i].Mode == "S2" && out[j].Mode != "S2" })
			return out
		},
	}
}
