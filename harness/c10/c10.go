// Package c10: slow consumers are isolated.  Same seam as c05 with a small
// model buffer (EventBufsiz = 2): a chosen subset of consumers is stalled
// (never reads until the stream has ended); healthy consumers acknowledge
// every event before the next one is published, so their backlog (and that of
// every internal stage) stays below the buffer by construction.
package c10

import (
	"fmt"
	"strings"

	"github.com/boz/kcache"
	"github.com/boz/kcache/filter"
	"github.com/boz/kcache/types/pod"
	metav1 "k8s.io/apimachinery/pkg/apis/meta/v1"

	"verif/explore"
	"verif/harness/hx"
	"verif/runner"
	"verif/vs"
)

const Bufsiz = 2 // must match cmd/c10/bufsiz

type cfg struct {
	TypedStalled bool // an additional typed (pod) subscription whose consumer is stalled
	Paced        bool // the driver waits for quiescence after every event (the library's internal stages never lag), and every node's own cache is then judged
	// Resume: a SLOW consumer - after the stream the stalled leaf reads ResumeRead events, ResumeMore further events are
	// published (concurrently with those reads if ResumeConcurrent, else after them), then it drains
	ResumeRead, ResumeMore int
	ResumeConcurrent       bool
	StallInit              bool // the stalled monitor's handler blocks inside OnInitialize (not in an event callback)
	CloseStalled           bool // the stalled consumer gives up: it closes its subscription while the stream is running
	Buf                    int  // model value of EventBufsiz for this scenario (0: Bufsiz)
	Refilter               bool // after the stream: Refilter a stalled direct filtered subscription so that it emits more events than its buffer holds
	Name                   string
	Tree                   []hx.Spec
	Stalled                map[string]bool // node paths whose consumer / handler is stalled
	K                      int
	Mode                   string
	Bound                  int
}

// stream: versions increase; labels alternate so that a filtered clone (l=1) sees creates and deletes
func (in *inst) finalObjs() []metav1.Object {
	if in.c.K == 0 {
		return nil
	}
	if in.c.Refilter {
		var out []metav1.Object
		for i := 1; i <= in.c.K; i++ {
			out = append(out, hx.Pod("ns", fmt.Sprintf("o%d", i), fmt.Sprint(i), "l=1"))
		}
		return out
	}
	return []metav1.Object{hx.Pod("ns", "a", fmt.Sprint(in.c.K+in.c.ResumeMore), "l=1")}
}

// objStream creates k distinct objects (so that a later Refilter has k membership changes to announce).
func objStream(k int) []kcache.Event {
	var out []kcache.Event
	for i := 1; i <= k; i++ {
		out = append(out, kcache.NewEvent(kcache.EventTypeCreate, hx.Pod("ns", fmt.Sprintf("o%d", i), fmt.Sprint(i), "l=1")))
	}
	return out
}

func stream(k int) []kcache.Event {
	var out []kcache.Event
	for i := 1; i <= k; i++ {
		l := "l=1"
		t := kcache.EventTypeUpdate
		if i == 1 {
			t = kcache.EventTypeCreate
		}
		out = append(out, kcache.NewEvent(t, hx.Pod("ns", "a", fmt.Sprint(i), l)))
	}
	return out
}

type inst struct {
	c                  cfg
	root               *hx.Root
	nodes              []*hx.Node
	acks               chan string
	release            chan struct{} // closed when the stream has ended: stalled consumers start draining
	healthy            int
	finished           bool
	typedGot           *[]string
	rootList, wantList string
	clock              int64
	initActive         bool
	duringInit         []string
	phase1             chan struct{} // closed after the first stream: slow consumers start their partial read
	readDone           chan bool
	pub1               int   // events published by the first stream
	idles              int64 // SleepIdle(1) calls made by the driver: the only legitimate reason for virtual time to advance
}

func (in *inst) handler(n *hx.Node) kcache.Handler {
	stalled := in.c.Stalled[n.Path]
	note := func(s string) {
		n.Calls = append(n.Calls, s)
		if stalled {
			<-in.release // a blocking handler
		} else if s != "init" {
			in.acks <- n.Path
		}
	}
	if stalled && in.c.StallInit {
		// blocks inside OnInitialize: no other callback may run meanwhile (callbacks are serial, OnInitialize first)
		ev := func(s string) {
			if in.initActive {
				in.duringInit = append(in.duringInit, s)
			}
			n.Calls = append(n.Calls, s)
		}
		return kcache.BuildHandler().
			OnInitialize(func(l []metav1.Object) {
				n.Calls = append(n.Calls, "init")
				in.initActive = true
				<-in.release
				in.initActive = false
			}).
			OnCreate(func(o metav1.Object) { ev("create:" + hx.ObjString(o)) }).
			OnUpdate(func(o metav1.Object) { ev("update:" + hx.ObjString(o)) }).
			OnDelete(func(o metav1.Object) { ev("delete:" + hx.ObjString(o)) }).Create()
	}
	return kcache.BuildHandler().
		OnInitialize(func(l []metav1.Object) { n.Calls = append(n.Calls, "init") }).
		OnCreate(func(o metav1.Object) { note("create:" + hx.ObjString(o)) }).
		OnUpdate(func(o metav1.Object) { note("update:" + hx.ObjString(o)) }).
		OnDelete(func(o metav1.Object) { note("delete:" + hx.ObjString(o)) }).Create()
}

func (c cfg) buf() int {
	if c.Buf > 0 {
		return c.Buf
	}
	return Bufsiz
}

func (in *inst) idle() {
	in.idles++
	vs.SleepIdle(1)
}

func (in *inst) run() {
	in.acks = make(chan string)
	in.release = make(chan struct{})
	in.phase1 = make(chan struct{})
	in.readDone = make(chan bool, 4)
	in.root = hx.NewRoot(filter.Null())
	in.root.Init(nil)
	in.nodes = hx.Build(in.root.Pub, in.c.Tree, nil, "", in.handler)
	hx.Walk(in.nodes, func(n *hx.Node) {
		if n.Err != nil {
			vs.Fail("build | node %s: %v", n.Path, n.Err)
			return
		}
		if n.IsLeaf() {
			n := n
			if in.c.Stalled[n.Path] {
				go func() {
					if in.c.CloseStalled {
						n.Close()
					}
					if in.c.ResumeRead > 0 {
						<-in.phase1
						for i := 0; i < in.c.ResumeRead; i++ {
							ev, ok := <-n.Events()
							if !ok {
								break
							}
							n.Received = append(n.Received, hx.EventString(ev))
						}
						in.readDone <- true
					}
					<-in.release
					n.Consume(false)
				}()
			} else {
				in.healthy++
				go func() {
					for ev := range n.Events() {
						n.Received = append(n.Received, hx.EventString(ev))
						in.acks <- n.Path
					}
					n.EventsClosed = true
				}()
			}
		} else if n.Mon != nil && !in.c.Stalled[n.Path] {
			in.healthy++
		}
	})
	var typedGot []string
	typedDone := false
	if in.c.TypedStalled {
		ts, err := pod.VNewController(in.root.Pub).Subscribe()
		if err != nil {
			vs.Fail("build | typed subscribe: %v", err)
			return
		}
		go func() {
			<-in.release
			for ev := range ts.Events() {
				typedGot = append(typedGot, string(ev.Type())+":"+hx.ObjString(ev.Resource()))
			}
			typedDone = true
		}()
		in.typedGot = &typedGot
		_ = typedDone
	}
	// the stream starts once every node is ready (events before readiness are replaced by the initial cache content)
	hx.Walk(in.nodes, func(n *hx.Node) {
		if r := n.Ready(); r != nil {
			<-r
		}
	})
	evs := stream(in.c.K)
	if in.c.Refilter {
		evs = objStream(in.c.K)
	}
	for _, ev := range evs {
		in.root.Publish(ev)
		// flow control: every healthy consumer acknowledges before the next event
		for i := 0; i < in.healthy; i++ {
			<-in.acks
		}
		if in.c.Paced {
			in.idle()
		}
	}
	in.pub1 = len(in.root.Published)
	if in.c.ResumeRead > 0 {
		nslow := 0
		hx.Walk(in.nodes, func(n *hx.Node) {
			if n.IsLeaf() && in.c.Stalled[n.Path] {
				nslow++
			}
		})
		if in.c.Paced {
			in.idle()
		}
		close(in.phase1)
		if !in.c.ResumeConcurrent {
			for i := 0; i < nslow; i++ {
				<-in.readDone
			}
			if in.c.Paced {
				in.idle()
			}
		}
		for i := 1; i <= in.c.ResumeMore; i++ {
			in.root.Publish(kcache.NewEvent(kcache.EventTypeUpdate, hx.Pod("ns", "a", fmt.Sprint(in.c.K+i), "l=1")))
			for j := 0; j < in.healthy; j++ {
				<-in.acks
			}
			if in.c.Paced {
				in.idle()
			}
		}
		if in.c.ResumeConcurrent {
			for i := 0; i < nslow; i++ {
				<-in.readDone
			}
		}
	}
	// "the caches stay current": every node's own cache (also a stalled one's: it is maintained by the library, not by the
	// consumer) follows the stream.  Judged in paced scenarios only: otherwise the scheduler may delay an internal
	// stage until ITS (model size 2) buffer overruns, which is the documented loss, not a stale cache.
	if pl, err := in.root.Cache.List(); err == nil && in.c.Paced {
		in.idle()
		hx.Walk(in.nodes, func(n *hx.Node) {
			c := n.Cache()
			if c == nil {
				return
			}
			var want []metav1.Object
			for _, o := range pl {
				ok := true
				for a := n; a != nil; a = a.Parent {
					if (a.Spec.Kind == "fsub" || a.Spec.Kind == "fclone") && !hx.RefAccept(a.Spec.Filter, o) {
						ok = false
					}
				}
				if ok {
					want = append(want, o)
				}
			}
			if l, err := c.List(); err == nil && hx.ListString(l) != hx.ListString(want) {
				vs.Fail("node cache not current | tree %s stalled %v: after the stream and at quiescence the cache of %s holds %s, the parent's accepted objects are %s", specs(in.c.Tree), keys(in.c.Stalled), n.Path, hx.ListString(l), hx.ListString(want))
			}
		})
	}
	if in.c.Refilter {
		// a stalled DIRECT filtered subscription is refiltered so that more events than its buffer holds are due:
		// the call must return, a second one too, and its own cache must follow
		hx.Walk(in.nodes, func(n *hx.Node) {
			if n.FSub != nil && in.c.Stalled[n.Path] {
				n.Refilter(hx.MkFilter(1)) // reject everything: one Delete per cached object
				n.Refilter(hx.MkFilter(0)) // accept everything: one Create per parent object
				n.Refilter(hx.MkFilter(0))
				in.idle()
				fl, _ := n.Cache().List()
				pl, _ := in.root.Cache.List()
				if hx.ListString(fl) != hx.ListString(pl) {
					vs.Fail("stalled filtered subscription's own cache is stale | %s holds %s after Refilter(Null), parent holds %s", n.Path, hx.ListString(fl), hx.ListString(pl))
				}
			}
		})
	}
	in.clock = vs.ClockHere()
	// caches stay current while consumers are stalled
	l, _ := in.root.Cache.List()
	in.rootList = hx.ListString(l)
	in.wantList = hx.ListString(in.finalObjs())
	in.finished = true
	close(in.release)
}

func (in *inst) check(r *vs.Result) []string {
	var msgs []string
	if !in.finished {
		msgs = append(msgs, fmt.Sprintf("stalled consumer blocks the pipeline | tree %s stalled %v: the publishing driver got stuck after %d of %d events (a healthy consumer did not receive an event or the root blocked)", specs(in.c.Tree), keys(in.c.Stalled), len(in.root.Published), in.c.K))
		return msgs
	}
	pub := in.root.Published
	hx.Walk(in.nodes, func(n *hx.Node) {
		stalled := in.c.Stalled[n.Path]
		var got []string
		switch {
		case n.IsLeaf():
			got = n.Received
		case n.Mon != nil:
			for _, c := range n.Calls {
				if c != "init" {
					got = append(got, c)
				}
			}
		default:
			return
		}
		if !stalled {
			if strings.Join(got, " ") != strings.Join(pub, " ") {
				msgs = append(msgs, fmt.Sprintf("healthy consumer lost events | tree %s stalled %v: healthy %s received %v, published %v", specs(in.c.Tree), keys(in.c.Stalled), n.Path, got, pub))
			}
			return
		}
		if in.c.Refilter {
			// its stream also carries the refilter's own events (its cache is judged in run); what can be said about the
			// stream: events are offered one by one, so the buffer is full at the end if more were due than it holds
			offered := 3 * in.c.K // K creates, K deletes (Refilter to accept-none), K creates (back to accept-all)
			if n.FSub != nil && offered >= in.c.buf() && len(got) != in.c.buf() {
				msgs = append(msgs, fmt.Sprintf("stalled consumer lost events within its buffer | %s (buffer %d): %d events were due (stream + two refilters), it drained %d: %v", n.Path, in.c.buf(), offered, len(got), got))
			}
			return
		}
		// stalled: an in-order subsequence of the published sequence, at least min(K, bufsiz) long
		j := 0
		for _, g := range got {
			for j < len(pub) && pub[j] != g {
				j++
			}
			if j == len(pub) {
				msgs = append(msgs, fmt.Sprintf("stalled consumer stream not an in-order subsequence | %s drained %v, published %v", n.Path, got, pub))
				return
			}
			j++
		}
		min := in.c.K
		if min > in.c.buf() {
			min = in.c.buf()
		}
		if len(got) < min && !in.c.CloseStalled { // (a consumer that closed its subscription keeps what arrived before that)
			msgs = append(msgs, fmt.Sprintf("stalled consumer lost events within its buffer | %s drained only %v of published %v (buffer %d)", n.Path, got, pub, in.c.buf()))
		}
		if in.c.ResumeRead > 0 && in.c.Paced && !in.c.ResumeConcurrent && n.Mon == nil {
			// a slow consumer under a paced stream: what fits is kept - the first `buffer` events of the stream, then, into
			// the slots its reads freed, the first events published afterwards
			var want []string
			want = append(want, pub[:min]...)
			room := in.c.ResumeRead
			if room > min {
				room = min
			}
			for i := 0; i < room && in.pub1+i < len(pub); i++ {
				want = append(want, pub[in.pub1+i])
			}
			if strings.Join(got, " ") != strings.Join(want, " ") {
				msgs = append(msgs, fmt.Sprintf("slow consumer lost events that fitted its buffer | %s (buffer %d, stream of %d, then %d read, then %d more published) received %v, expected %v", n.Path, in.c.buf(), in.pub1, in.c.ResumeRead, in.c.ResumeMore, got, want))
			}
		}
	})
	if len(in.duringInit) > 0 {
		msgs = append(msgs, fmt.Sprintf("monitor callbacks overlap a blocked OnInitialize | tree %s: while OnInitialize was blocked the handler received %v", specs(in.c.Tree), in.duringInit))
	}
	if in.typedGot != nil {
		got := *in.typedGot
		j := 0
		okSub := true
		for _, g := range got {
			for j < len(pub) && pub[j] != g {
				j++
			}
			if j == len(pub) {
				okSub = false
				break
			}
			j++
		}
		min := in.c.K
		if min > in.c.buf() {
			min = in.c.buf()
		}
		if !okSub {
			msgs = append(msgs, fmt.Sprintf("stalled consumer stream not an in-order subsequence | typed subscription drained %v, published %v", got, pub))
		} else if len(got) < min {
			msgs = append(msgs, fmt.Sprintf("stalled consumer lost events within its buffer | typed subscription drained only %v of published %v (buffer %d)", got, pub, in.c.buf()))
		}
	}
	if in.clock > in.idles {
		msgs = append(msgs, fmt.Sprintf("pipeline waits on a timer while a consumer is stalled | tree %s stalled %v: virtual time advanced to %dns during the stream although nothing in the fan-out path may wait for time", specs(in.c.Tree), keys(in.c.Stalled), in.clock))
	}
	if in.rootList != in.wantList {
		msgs = append(msgs, fmt.Sprintf("cache not current | parent cache holds %s after the stream, expected %s", in.rootList, in.wantList))
	}
	return msgs
}

func specs(t []hx.Spec) string {
	var ss []string
	for _, s := range t {
		ss = append(ss, s.String())
	}
	return strings.Join(ss, ",")
}

func keys(m map[string]bool) []string {
	var out []string
	for k := range m {
		out = append(out, k)
	}
	return out
}

func (in *inst) outcome() string {
	var b strings.Builder
	hx.Walk(in.nodes, func(n *hx.Node) {
		if n.IsLeaf() {
			fmt.Fprintf(&b, "%s=%v;", n.Path, n.Received)
		} else if n.Mon != nil {
			fmt.Fprintf(&b, "%s=%v;", n.Path, n.Calls)
		}
	})
	return b.String()
}

func scenario(c cfg) runner.Sc {
	name := fmt.Sprintf("c10/%s/stalled=%s/K%d/%s%d", c.Name+map[bool]string{true: "/paced"}[c.Paced]+map[bool]string{true: fmt.Sprintf("/buf%d", c.Buf)}[c.Buf > 0], strings.Join(keys(c.Stalled), "+"), c.K, c.Mode, c.Bound)
	return runner.Sc{
		Scenario: explore.Scenario{
			Name: name, Mode: c.Mode, Bound: c.Bound,
			Cfg: vs.Config{MaxSteps: 200000, Bufsiz: c.buf()},
			New: func() explore.Instance {
				in := &inst{c: c}
				return explore.Instance{Run: in.run, Check: in.check, Outcome: in.outcome}
			},
		},
		Split: true,
	}
}

// HealthySiblingScenarios: the part of these scenarios that is also C05's business - a subscriber (direct or
// through a clone) whose backlog stays at one event receives every published event in order although a sibling
// has stopped reading; only the healthy consumers and the progress of the publishing driver are judged.
func HealthySiblingScenarios(prop string) []runner.Sc {
	st := func(p ...string) map[string]bool {
		m := map[string]bool{}
		for _, x := range p {
			m[x] = true
		}
		return m
	}
	var out []runner.Sc
	for _, c := range []cfg{
		{Name: "sub,sub", Tree: []hx.Spec{sp("sub", 0), sp("sub", 0)}, Stalled: st("0:sub"), K: 5, Mode: "S2", Bound: 2},
		{Name: "sub,clone(sub)", Tree: []hx.Spec{sp("sub", 0), sp("clone", 0, sp("sub", 0))}, Stalled: st("0:sub"), K: 5, Mode: "S2", Bound: 2},
		{Name: "clone(sub,sub)", Tree: []hx.Spec{sp("clone", 0, sp("sub", 0), sp("sub", 0))}, Stalled: st("0:clone/0:sub"), K: 5, Mode: "S2", Bound: 2},
	} {
		c := c
		sc := scenario(c)
		sc.Scenario.Name = strings.Replace(sc.Scenario.Name, "c10/", strings.ToLower(prop)+"/stalled-sibling/", 1)
		sc.Scenario.New = func() explore.Instance {
			in := &inst{c: c}
			return explore.Instance{Run: in.run, Outcome: in.outcome, Check: func(r *vs.Result) []string {
				var keep []string
				for _, m := range in.check(r) {
					if strings.HasPrefix(m, "healthy consumer lost events") || strings.HasPrefix(m, "stalled consumer blocks the pipeline") {
						keep = append(keep, m)
					}
				}
				return keep
			}}
		}
		out = append(out, sc)
	}
	return out
}

func sp(kind string, f int, c ...hx.Spec) hx.Spec { return hx.Spec{Kind: kind, Filter: f, Children: c} }

func Property() runner.Property {
	return runner.Property{
		ID:    "C10",
		Level: "model_checking",
		Rule:  "publisher trees with EventBufsiz modelled as 2 (the constant is only ever a channel capacity; checked by the transformer); a subset of consumers is stalled (plain leaf, leaf under a clone, leaf under a filtered clone, monitor with a blocking handler); the healthy consumers acknowledge each event before the next is published (their backlog <= 1 by construction); stream lengths 0..3*bufsiz; oracle: the publishing driver finishes, every healthy consumer receives the whole stream in order, a stalled consumer later drains an in-order subsequence of at least min(K, bufsiz) events",
		Assumptions: []string{
			"model buffer 2 instead of 100 (chanxform -bufconst EventBufsiz=2)",
		},
		Scenarios: func(tier string) []runner.Sc {
			st := func(p ...string) map[string]bool {
				m := map[string]bool{}
				for _, x := range p {
					m[x] = true
				}
				return m
			}
			subsub := []hx.Spec{sp("sub", 0), sp("sub", 0)}
			cl := []hx.Spec{sp("clone", 0, sp("sub", 0)), sp("sub", 0)}
			fcl := []hx.Spec{sp("fclone", 2, sp("sub", 0)), sp("sub", 0)}
			mon := []hx.Spec{sp("mon", 0), sp("sub", 0)}
			var out []runner.Sc
			for _, k := range []int{0, 1, 3, 5} {
				out = append(out,
					scenario(cfg{Name: "sub,sub", Tree: subsub, Stalled: st("0:sub"), K: k, Mode: "S2", Bound: 2}),
					scenario(cfg{Name: "clone(sub),sub", Tree: cl, Stalled: st("0:clone/0:sub"), K: k, Mode: "S2", Bound: 2}),
					scenario(cfg{Name: "fclone(sub),sub", Tree: fcl, Stalled: st("0:fclone/0:sub"), K: k, Mode: "S2", Bound: 2}),
					scenario(cfg{Name: "mon,sub", Tree: mon, Stalled: st("0:mon"), K: k, Mode: "S2", Bound: 2}),
				)
			}
			out = append(out, scenario(cfg{Name: "sub,sub", Tree: subsub, Stalled: st("0:sub"), K: 3, Mode: "S1"}))
			for _, k := range []int{1, 3, 5} {
				out = append(out, scenario(cfg{Name: "typed-sub(stalled),sub", Tree: []hx.Spec{sp("sub", 0)}, TypedStalled: true, K: k, Mode: "S2", Bound: 2}))
			}
			// slow consumers: stall through the stream, read one event, two more are published (after the read, paced:
			// exact expectation; concurrently with it: order), drain
			for _, tr := range []struct {
				name string
				tree []hx.Spec
				st   string
			}{{"fsub,sub", []hx.Spec{sp("fsub", 2), sp("sub", 0)}, "0:fsub"}, {"sub,sub", subsub, "0:sub"}, {"clone(sub),sub", cl, "0:clone/0:sub"}} {
				out = append(out, scenario(cfg{Name: tr.name + "/slow", Tree: tr.tree, Stalled: st(tr.st), K: 3, ResumeRead: 1, ResumeMore: 2, Paced: true, Mode: "S2", Bound: 2}))
				out = append(out, scenario(cfg{Name: tr.name + "/slow-concurrent", Tree: tr.tree, Stalled: st(tr.st), K: 3, ResumeRead: 1, ResumeMore: 2, ResumeConcurrent: true, Mode: "S2", Bound: 2}))
				// a stall through more than twice the buffer, then the consumer comes back: it is still subscribed
				out = append(out, scenario(cfg{Name: tr.name + "/slow", Tree: tr.tree, Stalled: st(tr.st), K: 5, ResumeRead: 1, ResumeMore: 2, Paced: true, Mode: "S2", Bound: 1}))
				// a larger model buffer (4): overflow by one, read one, one more event must fit
				out = append(out, scenario(cfg{Name: tr.name + "/slow", Tree: tr.tree, Stalled: st(tr.st), K: 5, Buf: 4, ResumeRead: 1, ResumeMore: 1, Paced: true, Mode: "S2", Bound: 1}))
			}
			// a stall through more events than the library's real buffer (100) holds, however small the model's
			// buffer: the consumer is still subscribed when it comes back (default schedule and one deviation)
			out = append(out, scenario(cfg{Name: "sub,sub/slow-long-stall", Tree: subsub, Stalled: st("0:sub"), K: 120, ResumeRead: 1, ResumeMore: 2, Paced: true, Mode: "D0"}))
			for _, k := range []int{1, 3} {
				out = append(out, scenario(cfg{Name: "mon(blocked-in-OnInitialize),sub", Tree: mon, Stalled: st("0:mon"), StallInit: true, K: k, Mode: "S2", Bound: 2}))
			}
			// a stalled consumer that gives up (closes) while the stream is running: the others lose nothing
			out = append(out, scenario(cfg{Name: "sub,sub,sub/stalled-one-closes", Tree: []hx.Spec{sp("sub", 0), sp("sub", 0), sp("sub", 0)}, Stalled: st("0:sub"), CloseStalled: true, K: 3, Mode: "S2", Bound: 2}))
			out = append(out, scenario(cfg{Name: "sub,clone(sub)/stalled-one-closes", Tree: []hx.Spec{sp("sub", 0), sp("clone", 0, sp("sub", 0))}, Stalled: st("0:sub"), CloseStalled: true, K: 3, Mode: "S2", Bound: 2}))
			fs := []hx.Spec{sp("fsub", 0), sp("sub", 0)}
			for _, k := range []int{3, 5} {
				out = append(out, scenario(cfg{Name: "fsub,sub", Tree: []hx.Spec{sp("fsub", 2), sp("sub", 0)}, Stalled: st("0:fsub"), K: k, Paced: true, Mode: "S2", Bound: 2}))
			}
			out = append(out, scenario(cfg{Name: "fsub,sub+refilter", Tree: fs, Stalled: st("0:fsub"), K: 3, Refilter: true, Mode: "S2", Bound: 2}))
			out = append(out, scenario(cfg{Name: "fsub,sub+refilter", Tree: fs, Stalled: st("0:fsub"), K: 5, Refilter: true, Mode: "S2", Bound: 1}))
			// a partly filled buffer (4) meets a refilter batch larger than the room left: what fits is kept
			out = append(out, scenario(cfg{Name: "fsub,sub+refilter", Tree: fs, Stalled: st("0:fsub"), K: 3, Buf: 4, Refilter: true, Mode: "S2", Bound: 1}))
			if tier == "thorough" {
				for _, k := range []int{4, 6} {
					out = append(out,
						scenario(cfg{Name: "sub,sub", Tree: subsub, Stalled: st("0:sub"), K: k, Mode: "S1"}),
						scenario(cfg{Name: "clone(sub),sub", Tree: cl, Stalled: st("0:clone/0:sub"), K: k, Mode: "S2", Bound: 3}),
						scenario(cfg{Name: "clone(sub),sub", Tree: cl, Stalled: st("1:sub"), K: k, Mode: "S2", Bound: 3}),
						scenario(cfg{Name: "fclone(sub),sub", Tree: fcl, Stalled: st("0:fclone/0:sub"), K: k, Mode: "S2", Bound: 3}),
						scenario(cfg{Name: "mon,sub", Tree: mon, Stalled: st("0:mon"), K: k, Mode: "S2", Bound: 3}),
						scenario(cfg{Name: "sub,sub", Tree: subsub, Stalled: st("0:sub", "1:sub"), K: k, Mode: "S2", Bound: 3}),
					)
				}
			}
			return out
		},
	}
}
