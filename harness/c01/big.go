package c01

import (
	"context"
	"fmt"
	"strings"

	"github.com/boz/kcache"
	"github.com/boz/kcache/filter"
	metav1 "k8s.io/apimachinery/pkg/apis/meta/v1"

	"verif/explore"
	"verif/harness/hx"
	"verif/runner"
	"verif/vs"
)

// The large-universe companion of the explicit-state search: one fixed operation sequence over 300 keys on a fresh
// real _cache (default schedule), compared after every operation with a plain-map reference (C01) and for "events
// replayed over the previous content give the new content" (C02). It is there for what the 2-key universe cannot
// show: anything that depends on how MANY objects a list, a cache or a refilter holds (chunking, thresholds, maps
// versus slices); the version numbers pass 9, 99 and 999.

type bigOp struct {
	kind   string // sync | refilter | update
	list   []metav1.Object
	fname  string
	filter filter.Filter
	ev     kcache.Event
}

func bigPlan() []bigOp {
	gen := func(from, to int, rv int, lab func(i int) string) []metav1.Object {
		var l []metav1.Object
		for i := from; i < to; i++ {
			l = append(l, hx.Pod("ns", fmt.Sprintf("o%03d", i), fmt.Sprint(rv), lab(i)))
		}
		return l
	}
	par := func(i int) string { return fmt.Sprintf("l=%d", i%2) }
	one := func(int) string { return "l=1" }
	l1 := func() filter.Filter { return filter.Labels(map[string]string{"l": "1"}) }
	return []bigOp{
		{kind: "sync", list: gen(0, 300, 8, par)},
		// half of the objects gone, the others newer, ten new ones
		{kind: "sync", list: append(gen(0, 150, 98, par), gen(300, 310, 99, par)...)},
		{kind: "update", ev: kcache.NewEvent(kcache.EventTypeCreate, hx.Pod("ns", "o200", "100", "l=1"))},
		{kind: "update", ev: kcache.NewEvent(kcache.EventTypeDelete, hx.Pod("ns", "o000", "101", "l=0"))},
		{kind: "update", ev: kcache.NewEvent(kcache.EventTypeUpdate, hx.Pod("ns", "o149", "102", "l=0"))},
		// a filter that rejects every second object, with a full list
		{kind: "refilter", fname: "l=1", filter: l1(), list: gen(0, 300, 998, par)},
		// everything flips into the filter at once
		{kind: "sync", list: gen(0, 300, 999, one)},
		{kind: "sync", list: gen(100, 400, 1000, par)},
		{kind: "refilter", fname: "Null", filter: filter.Null(), list: gen(0, 300, 1001, par)},
		{kind: "sync", list: nil},
	}
}

type bigInst struct {
	prop     string
	msgs     []string
	finished bool
	ops      int
}

func (in *bigInst) fail(prop, format string, a ...interface{}) {
	if prop == in.prop && len(in.msgs) < 4 {
		in.msgs = append(in.msgs, fmt.Sprintf(format, a...))
	}
}

func (in *bigInst) run() {
	stop := make(chan struct{})
	c := kcache.VNewCache(context.Background(), hx.Log, stop, filter.Null())
	cur := map[string]metav1.Object{}
	var f filter.Filter = filter.Null()
	upsert := func(o metav1.Object) {
		k := hx.Key(o)
		old, ok := cur[k]
		switch {
		case !ok && f.Accept(o):
			cur[k] = o
		case ok && hx.Ver(o) > hx.Ver(old) && f.Accept(o):
			cur[k] = o
		case ok && hx.Ver(o) > hx.Ver(old):
			delete(cur, k)
		}
	}
	syncTo := func(list []metav1.Object) {
		seen := map[string]bool{}
		for _, o := range list {
			upsert(o)
			seen[hx.Key(o)] = true
		}
		for k := range cur {
			if !seen[k] {
				delete(cur, k)
			}
		}
	}
	content := func() []metav1.Object {
		var l []metav1.Object
		for _, o := range cur {
			l = append(l, o)
		}
		return l
	}
	for i, op := range bigPlan() {
		before := content()
		var evs []kcache.Event
		var err error
		name := op.kind
		switch op.kind {
		case "sync":
			name = fmt.Sprintf("sync(%d objects)", len(op.list))
			evs, err = c.Sync(op.list)
			syncTo(op.list)
		case "refilter":
			name = fmt.Sprintf("refilter(%s, %d objects)", op.fname, len(op.list))
			evs, err = c.Refilter(op.list, op.filter)
			f = op.filter
			for k, o := range cur {
				if !f.Accept(o) {
					delete(cur, k)
				}
			}
			syncTo(op.list)
		case "update":
			name = "update(" + hx.EventString(op.ev) + ")"
			evs, err = c.Update(op.ev)
			if o := op.ev.Resource(); op.ev.Type() == kcache.EventTypeDelete {
				delete(cur, hx.Key(o))
			} else {
				upsert(o)
			}
		}
		where := fmt.Sprintf("operation %d of the 300-key sequence, %s", i+1, name)
		if err != nil {
			in.fail("C01", "error (large universe) | %s: %v", where, err)
			break
		}
		l, err := c.List()
		if err != nil {
			in.fail("C01", "error (large universe) | %s: List: %v", where, err)
			break
		}
		want := hx.ListString(content())
		if got := hx.ListString(l); got != want {
			in.fail("C01", "content differs from reference (large universe) | %s: %s", where, diffLists(got, want))
		}
		for _, o := range l {
			if !f.Accept(o) {
				in.fail("C01", "cached object violates filter (large universe) | %s: %s", where, hx.ObjString(o))
				break
			}
		}
		for _, probe := range []string{"o000", "o149", "o150", "o299", "o305"} {
			g, _ := c.Get("ns", probe)
			w := "<nil>"
			if o, ok := cur["ns/"+probe]; ok {
				w = hx.ObjString(o)
			}
			if hx.ObjString(g) != w {
				in.fail("C01", "Get differs from reference (large universe) | %s: Get(ns/%s) = %s, reference %s", where, probe, hx.ObjString(g), w)
			}
		}
		var es []string
		for _, e := range evs {
			es = append(es, hx.EventString(e))
		}
		mirrored, ill := hx.Mirror(before, es)
		if len(ill) > 0 {
			in.fail("C02", "ill-formed event (large universe) | %s: %v", where, ill[:1])
		}
		if mirrored != want {
			in.fail("C02", "events do not account for the content (large universe) | %s: %d events; replayed over the previous content: %s", where, len(evs), diffLists(mirrored, want))
		}
		in.ops++
	}
	close(stop)
	<-c.Done()
	in.finished = true
}

// diffLists names the first entries two rendered lists disagree on (the lists are long).
func diffLists(got, want string) string {
	g, w := strings.Fields(strings.Trim(got, "[]")), strings.Fields(strings.Trim(want, "[]"))
	gm, wm := map[string]bool{}, map[string]bool{}
	for _, x := range g {
		gm[x] = true
	}
	for _, x := range w {
		wm[x] = true
	}
	var extra, missing []string
	for _, x := range g {
		if !wm[x] && len(extra) < 3 {
			extra = append(extra, x)
		}
	}
	for _, x := range w {
		if !gm[x] && len(missing) < 3 {
			missing = append(missing, x)
		}
	}
	return fmt.Sprintf("%d entries against %d in the reference; not in the reference e.g. %v, missing e.g. %v", len(g), len(w), extra, missing)
}

func (in *bigInst) check(r *vs.Result) []string {
	if !in.finished {
		return append(in.msgs, fmt.Sprintf("wedge (large universe) | the 300-key sequence did not finish (%d operations done); blocked: %d goroutines", in.ops, len(r.Blocked)))
	}
	return in.msgs
}

func bigScenario(prop string) runner.Sc {
	return runner.Sc{
		Scenario: explore.Scenario{
			Name: strings.ToLower(prop) + "/large-universe/300-keys", Mode: "D0",
			Cfg: vs.Config{MaxSteps: 5000000},
			New: func() explore.Instance {
				in := &bigInst{prop: prop}
				return explore.Instance{Run: in.run, Check: in.check, Outcome: func() string { return fmt.Sprint(in.ops) }}
			},
		},
	}
}
