#!/bin/bash
# tools/seedimport.sh <agent _out dir> <new id, e.g. C01-3>: copies a seeded change (patch, demo, notes) into /verif/seeded/<id>/
set -euo pipefail
SRC=$1; ID=$2; D=/verif/seeded/$ID
mkdir -p $D
cp $SRC/patch.diff $D/patch.diff
cp $SRC/notes.md $D/notes.md 2>/dev/null || true
cp $SRC/*_test.go $D/ 2>/dev/null || true
cp $SRC/*.go $D/ 2>/dev/null || true
ls $D
